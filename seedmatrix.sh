#!/bin/bash
# runs every seeded change against the quick check of the property it breaks; prints one line per seed
V=$(cd "$(dirname "$0")" && pwd)
cd $V/seeded || exit 2
for d in */; do
  d=${d%/}
  [ -f "$d/patch.diff" ] || continue
  case "$d" in *neutralised*|*not-reachable*) continue;; esac
  p=$(python3 -c "import json;m=json.load(open('$d/meta.json'));print(m.get('check_with',m['breaks_property']))")
  patch=$d/patch.diff; [ -f "$d/patch.ported.diff" ] && patch=$d/patch.ported.diff
  out=$($V/seedtest.sh $V/seeded/$patch ${1:-quick} $p 2>&1)
  base=$(echo "$out" | grep -c "missing: 0")
  echo "$d | baseline_ok=$base | $(echo "$out" | grep "^CAUGHT-BY" ) | $(echo "$out" | grep " rc=" | cut -c1-160)"
done
