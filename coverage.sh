#!/bin/bash
# Reach measurement (not a registered check): statement coverage of tkestack.io/kvass/pkg/... reached by a sample of
# simulated runs of every property. The build overlay cannot be combined with -cover (the cover tool reads files from
# disk), so the overlay is materialised into a scratch copy of the tree first.
# usage: coverage.sh [runs-per-property]   (default 300; C09 uses runs/25)
set -e
V=$(cd "$(dirname "$0")" && pwd)
N=${1:-300}
R=${KVASS_REPO:-/repo}
export GOFLAGS=-mod=mod GOPROXY=off GOSUMDB=off GOTOOLCHAIN=local PATH="$PATH:/opt/veriftools/go1.26.8/bin"
S=$(mktemp -d /tmp/kvcov.XXXXXX); trap "rm -rf $S" EXIT
mkdir -p $S/cov $S/repo
cd $V/sim
cp go.mod go.sum $S/
go1.26.8 build -o $S/rw ./cmd/rewriter
$S/rw -modfile "-modfile=$S/go.mod" -repo $R -out $S/ov -hook hook/verifhook.go.src >/dev/null
rsync -a --exclude .git $R/ $S/repo/
python3 - "$S" "$R" <<'PY'
import json,os,shutil,sys
S,R=sys.argv[1],sys.argv[2]
for orig,new in json.load(open(S+'/ov/overlay.json'))['Replace'].items():
    dst=orig.replace(R+'/',S+'/repo/',1); os.makedirs(os.path.dirname(dst),exist_ok=True); shutil.copy(new,dst)
PY
sed "s#=> $R\$#=> $S/repo#" go.mod > $S/go.mod
go1.26.8 test -c -modfile=$S/go.mod -cover -coverpkg=tkestack.io/kvass/pkg/... -vet=off -ldflags=-checklinkname=0 -tags verif -o $S/simcov ./cmd/simbin
export KVSIM_COVERDIR=$S/cov VERIF_DIR=$V
for p in C01 C02 C03 C04 C05 C06 C07 C08 C09 C10 C11 C12 C13 C14 C15 C16 C17 C18 C19 C20; do
  n=$N; [ $p = C09 ] && n=$((N/25+1))
  ONLY=$(python3 -c "print(','.join(str(i) for i in range(0,$n)))")
  GOMAXPROCS=1 $S/simcov worker -prop $p -only $ONLY -out $S/o.jsonl >/dev/null 2>&1 || echo "worker $p failed"
done
go1.26.8 tool covdata percent -i=$S/cov | grep "kvass/pkg" | grep -v "verifhook\|utils/test"
