#!/bin/bash
# usage: seedtest.sh <patch.diff> [tier] [props...]   — applies a seeded change to a kvass tree, runs the baseline
# tests and the given checks (default: all), reports which checks raise a violation, and undoes the change.
# The tree is /repo unless SEED_REPO names a scratch worktree of it (then /repo is not touched).
patch=$1; tier=${2:-quick}; shift; shift
props=${@:-C01 C02 C03 C04 C05 C06 C07 C08 C09 C10 C11 C12 C13 C14 C15 C16 C17 C18 C19 C20}
R=${SEED_REPO:-/repo}
V=$(cd "$(dirname "$0")" && pwd)
cd $R || exit 2
if [ -n "$(git status --porcelain)" ]; then echo "$R not clean"; exit 2; fi
git apply "$patch" || { echo "patch does not apply"; exit 2; }
trap "git -C $R checkout -- . ; git -C $R clean -fdq pkg cmd" EXIT
BASE_REPO=$R $V/baseline.sh | tail -3
caught=""
for p in $props; do
  out=$(KVASS_REPO=$R $V/check $p $tier -no-evidence 2>&1); rc=$?
  sigs=$(echo "$out" | grep "signature:" | sed 's/.*signature: //' | tr '\n' ' ')
  echo "$p rc=$rc $(echo "$out" | tail -1 | cut -c1-110) $sigs"
  [ $rc -eq 1 ] && caught="$caught $p"
done
echo "CAUGHT-BY:$caught"
