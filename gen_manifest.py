#!/usr/bin/env python3
"""Regenerates /verif/MANIFEST.json from the table below (kept in one place so that
claimed checks, not_applicable and engines never drift apart)."""
import json

CHECKS = {
 "C01": dict(engine="cycle", design="5/C01",
   text="Seeded search over single coordination cycles: the real Coordinator.Run executes one runOnce against scripted sidecars inside a synctest bubble; every parallel request parks at the simulated transport and is released in PRNG order, map iteration order and math/rand are PRNG-controlled; oracles (no orphan, justified removal, no crash/deadlock) are evaluated on the request/response trace. Every 157th run is a closed-loop world run (real sidecars, faults) whose cycles go through the same oracle. Evidence, not proof: a clean batch says the sampled reports/orders hold.",
   note="Trusted: scripted sidecars produce only reports a real sidecar can produce; the overlay rewriter preserves Go's map-range semantics; testing/synctest; third-party map ranges are not controlled (determinism self-check at another GOMAXPROCS in every run)."),
}
_cyc_note="Trusted: scripted sidecars produce only reports a real sidecar can produce; the overlay rewriter preserves Go's map-range semantics; testing/synctest; third-party map ranges are not controlled (determinism self-check at another GOMAXPROCS in every run)."
CHECKS["C04"]=dict(engine="cycle", design="5/C04", note=_cyc_note,
  text="Seeded search over single coordination cycles of the real coordinator (scripted sidecars, PRNG-ordered request completion and map iteration). Oracle on the trace: load the destination reported + everything newly placed on it (weighed by the source's / explorer's report, most lenient source) stays strictly below both limits; unscraped oversized targets are never posted and never cause a scale request above the current count. Evidence, not proof.")
CHECKS["C05"]=dict(engine="cycle", design="5/C05", note=_cyc_note,
  text="Seeded search over single coordination cycles of the real coordinator over all generated source/destination report pairs (scrape counts 0,1,2,3,4,50 on either side, any health, any load order). Oracle: a newly marked in_transfer copy has a normal-state holder planned in the same cycle and vice versa; an in_transfer copy is dropped only when it and another in-sync holder both report >= 3 scrapes (README rule; the constant is not read from the code). Whole multi-cycle moves with real sidecars are covered by the world engine.")
CHECKS["C07"]=dict(engine="cycle", design="5/C07", note=_cyc_note,
  text="Seeded search over single coordination cycles; every ChangeScale argument of the cycle (early and final) is checked against bounds, the last shard that must stay (out of sync / holding / given a target this cycle / idle not expired on the fake clock) and the no-scale-down conditions. Evidence, not proof.")
CHECKS["C08"]=dict(engine="cycle", design="5/C08", note=_cyc_note,
  text="Seeded search over single coordination cycles with every subset of shards unready / failing either GET (503, refused, response lost) / hash differing with push accepted, ineffective, rejected, refused or lost / re-read failing; the complete per-shard request log is checked: no update to a shard that is not in sync by the harness' own definition, config push first and re-read after it, in-sync shards take part, reported targets of reachable unsynced shards are not assigned again.")

_node_note="Trusted: the sidecar is the real command body of cmd/kvass/sidecar.go (the build overlay compiles cmd/kvass as a package; its two listeners and the scrape clients' transport are handed to the simulator); Prometheus (HTTP stub behind http.DefaultTransport) and the scrape targets are stubs; testing/synctest fake clock."
CHECKS["C10"]=dict(engine="node", design="5/C10", note=_node_note,
  text="Model-based seeded search: a real sidecar (TargetsManager, Service, Proxy, Injector, config manager, store file) is driven through drawn operation sequences (updates via the real POST route, scrapes through the real proxy, restarts from the store directory, fake-clock advances) and its real status / runtimeinfo answers are compared with a small reference model of the bookkeeping after every operation (times compared exactly on the fake clock).")
CHECKS["C12"]=dict(engine="node", design="5/C12", note=_node_note,
  text="Seeded search over payload classes x read-chunk patterns x gzip x short-write patterns (and a real net/http server+client over net.Pipe) through the real proxy/scraper/tee reader: status 200, target's content type, no content-encoding, body byte-for-byte equal to the served payload.")
CHECKS["C13"]=dict(engine="node", design="5/C13", note=_node_note,
  text="Fault injection at the scrape target (connect error, non-200, time-out on the fake clock, body break at every/drawn offset, corrupted gzip stream, administrative stop) observed by a real http.Client talking to a real http.Server that serves the real Proxy over net.Pipe inside a synctest bubble: a failed real scrape must never be a complete 200 for the client; health/last error truthful; counter +1 per attempt; small payloads are swept over every break offset (reported as exhaustive sub-sweeps).")
CHECKS["C14"]=dict(engine="node", design="5/C14", note=_node_note,
  text="Model-based seeded search: payloads are built from drawn (metric, label set) samples so total and kept counts are known by construction (kept via Prometheus' own relabel.Process); after every operation of a drawn history the real /status/, /runtimeinfo/ and /samples/ answers are compared with the model (mean of last <=3 successes, last total, sums, head floor); every 29th run is a closed-loop world run in which every runtimeinfo answer is checked against the status map of the same shard and cycle.")
CHECKS["C19"]=dict(engine="cycle", design="5/C19", note=_cyc_note,
  text="Differential seeded search: the same two-replica scenario (incl. listing errors, scale errors, unready replicas, different placements of the same targets) is run as [A,B], [B] and [A] with per-replica schedules; everything sent to a replica's shards and manager must be identical with and without the other replica; all cycle oracles are additionally evaluated per replica, also on every cycle of closed-loop two-replica world runs (every 151st run).")

CHECKS["C09"]=dict(engine="node", design="5/C09", note="Trusted: RLIMIT_FSIZE and strace syscall injection behave as documented in this kernel; the fault sweeps run without the injector callbacks (only the store is at stake), the clean-restart clause is repeated on the whole `kvass sidecar` command body; no power-loss model (kill / partial write / full disk only).",
  text="Crash-point and write-fault injection below the process, at the syscall boundary, against the real TargetsManager on a real directory: for every byte offset N of small stores (complete sub-sweep) and drawn N of large ones the store write is cut by RLIMIT_FSIZE; the write Load performs at start is cut likewise; the same update runs in a separate OS process with a cut and is SIGKILLed by strace on entry to every syscall touching the store files; after each fault a fresh start must succeed and resume the acknowledged or the interrupted assignment, and a second start must agree. Seeded search over assignment pairs (escaping, sizes, states, idle transitions, old-format store).")

CHECKS["C11"]=dict(engine="node", design="5/C11", note=_node_note+" Both texts are compared as structs loaded by the vendored Prometheus library.",
  text="Seeded search over histories of configuration changes and assignments on a real sidecar (push and file mode): configurations are composed from a catalogue covering every auth kind, SD kind, limits, relabel programs and remote/alerting sections with unique secret tokens, rendered in drawn YAML styles; after every operation the injector's file is loaded with config.Load and compared field-wise with latest config x latest assignment (jobs and order, static entries per assigned target, proxy/http/no basic-auth/no TLS, no job secret in the text, ingestion settings kept, global/rule/alerting/remote sections deeply equal including secret values).")

CHECKS["C16"]=dict(engine="node", design="5/C16", note="Trusted: the edit catalogue's tagging of an edit as semantic or cosmetic (value domains exclude textually different but equal values); a separate OS process stands in for 'different processes'. Input-dominated property (DESIGN 6): the simulated part is the process / sidecar-API dimension; the world engine covers in-sync over cycles.",
  text="Seeded search over generated configurations x cosmetic re-renderings x single-setting semantic edits: equal text must hash equal in two config managers, in a child OS process and as reported by a real sidecar's runtimeinfo after the real push route; cosmetic variants (formatting, key order, quoting, comments, external labels) must hash equal; every semantic edit (each scalar kind incl. regexes and secrets, SD options, list reorder) must change the hash; every 13th run is a closed-loop world run with semantic / cosmetic configuration edits and late file roll-outs in which a shard must be treated as in sync exactly when it runs the coordinator's semantic revision.")

CHECKS["C18"]=dict(engine="k8s", design="5/C18", note="Trusted: client-go's fake clientset as API-server stub (object tracker semantics); reactors inject errors and the pod list order.",
  text="The real kubernetes ReplicasManager/shardManager run against a fake clientset: complete fault-free sweeps of a small (old,new,templates,flag) grid inside runs plus seeded cases with injected API errors (get/update/delete per ordinal), a concurrent writer, drawn pod list orders, pods without IP, extra pods, rolling-update StatefulSets; oracles on objects left in the stub (replicas, exactly the removed ordinals' claims, never a remaining shard's claim under any error, no write when unchanged) and on the Shard list (ordinal order, address via the URL actually called, readiness).")

_disco_note="Trusted: the harness replicates cmd/kvass/coordinator.go's wiring and owns the SD manager, the forwarder goroutine and the probe transport (C17 and C20 additionally run, every 37th run, the real coordinator command body in the cmdworld engine); scheduling points are the Lock() calls of pkg/discovery and pkg/explore (inserted by the overlay), transport calls and timers; interleavings inside a critical section are not explored."
CHECKS["C17"]=dict(engine="disco", design="5/C17", note=_disco_note,
  text="Seeded search over interleavings of asynchronous discovery updates, reloads and readers on the real TargetsDiscovery/Explore/ConfigManager chain, with every goroutine parked before each Lock() and released in PRNG order; the recorded history (event sequence stamps) is checked for linearizability against a sequential model with porcupine (Illegal = violation, Unknown = inconclusive), plus snapshot immutability, WaitInit on the fake clock, deleted jobs staying deleted and explorer tracking at quiescence.")
CHECKS["C20"]=dict(engine="disco", design="5/C20", note=_disco_note,
  text="Seeded search over probe-failure patterns x interleavings of Get calls, probe completions (parked at the transport), fake-clock advances, removals / re-additions of targets (also inside the retry wait and while a probe is in flight), reloads and lock order, against the real explorer with 1-8 workers; probe discipline is observed at the transport (none before Get, one in flight, none after success, no same-instant retry, one queued probe after removal), liveness after a quiet phase, and Get returns the successful probe's counts.")

_world_note="Trusted: Prometheus, the Kubernetes API server + StatefulSet controller, the SD manager and the scrape targets are stubs (Prometheus stub uses the real config.Load and scrape.TargetsFromGroup on the real generated file); the coordinator side of the world engine replicates cmd/kvass/coordinator.go's wiring (its sidecars are the real command bodies); every 7th run is the cmdworld engine instead, where the coordinator too is its real command body (static shard list, real Prometheus discovery manager fed by a simulated SD plug-in) and only end states are judged; the budget (140 fault-free cycles; 80 in cmdworld) and 'eligible' are the harness' definitions stated in the evidence."
CHECKS["C03"]=dict(engine="world", design="5/C03", note=_world_note,
  text="Closed-loop seeded search on the fake clock: the real coordinator (with real discovery, explorer, config manager and kubernetes shard managers) runs its cycles against real sidecars on real store directories that are scraped by Prometheus stubs; arbitrary initial placements (duplicates, pending and stuck transfers) and workloads (targets added/removed, growth, health flips, config edits) are followed by a quiet phase in which the end-state predicate (every eligible target on exactly one shard in normal state, nothing in_transfer, nothing oversized assigned, nothing undiscovered held) must be reached and stay unchanged; bounded liveness, evidence not proof.")
CHECKS["C06"]=dict(engine="world", design="5/C06", note=_world_note,
  text="The C03 closed loop with fault injection at the harness-owned boundaries (target update lost before/after taking effect, sidecar restart from its store, shard not ready / unreachable / failing GETs for a window, external scale change, configuration edit with late file rollout), placed at cycle boundaries and biased to cycles with in-flight transfers; after the faults stop the C03 end state must be reached within the budget: nothing stays in_transfer, duplicated or unscraped.")

CHECKS["C15"]=dict(engine="disco", design="5/C15", note="Input-dominated (DESIGN 6). Trusted: the generator's tagging of which pairs must collapse / must differ.",
  text="Seeded search: the same logical targets are fed through the real TargetsDiscovery.Run in several rounds with drawn target order, group assignment and order, group/target label split and label iteration order (map-range overlay), through re-created TargetsDiscovery instances and a child OS process; hashes must be identical everywhere, exact and meta-only duplicates must collapse in ActiveTargetsByHash, and pairs differing in exactly one component (label value, added label, address, port, path, scheme, param) must hash differently.")
CHECKS["C02"]=dict(engine="disco", design="5/C02", note="Input-dominated (DESIGN 6): no fault kind applies. Trusted: the vendored Prometheus library (PopulateLabels, Target.URL, scrape-pool de-duplication rule as re-stated in the oracle) as the reference for 'one plain Prometheus'.",
  text="Seeded search over scrape jobs x target groups through the chain of real parties and encodings (discovery -> JSON -> sidecar route -> injector YAML -> config.Load/TargetsFromGroup -> proxy -> request URL) against the reference computed by the Prometheus library on the original job: equal multisets of (final labels, scheme, host, path, query).")

NOT_YET = {
}

def main():
    props = [json.loads(l) for l in open('/verif/properties.jsonl')]
    checks = []
    na = []
    for p in props:
        pid = p['id']
        c = CHECKS.get(pid)
        if c is None:
            na.append({"property_id": pid, "reason": NOT_YET.get(pid, "check under construction in this session: no registered command yet (the technique applies; see DESIGN.md section 5/%s)" % pid)})
            continue
        checks.append({
            "property_id": pid,
            "quick_cmd": "./check %s quick" % pid,
            "thorough_cmd": "./check %s thorough" % pid,
            "evidence_file": "/verif/evidence/%s.json" % pid,
            "replay_cmd_template": "./check replay {path}",
            "engine": c["engine"],
            "level_claimed": {"category": "exploration", "text": c["text"], "design_ref": c["design"]},
            "level_note": c["note"],
            "technique": "deterministic simulation with fault injection: seeded schedule/fault search over real kvass code in a synctest bubble, tape-based replay and shrinking",
        })
    m = {
        "version": 1,
        "setup_cmd": "./check build",
        "hooks": {
            "guard": "verif",
            "enable": "go test -c -tags verif -overlay <scratch>/overlay.json (built by ./check; the overlay rewrites the map ranges of /repo/pkg into verifhook.Keys iterations, inserts verifhook.Yield before every Lock() of pkg/discovery, pkg/explore and pkg/sidecar, compiles cmd/kvass as the package pkg/verifcmd with network seams at http.ListenAndServe / NewClientFromConfig and four textual seams in the coordinator command, and maps in the virtual package tkestack.io/kvass/pkg/verifhook from /verif/sim/hook; /repo itself is not edited: no hook commit exists)",
            "baseline_off_cmd": "cd /repo && go test -mod=mod -vet=off -count=1 ./...",
            "source_commits": [],
            "add_only": True,
        },
        "engines": [
            {"name": "cycle", "path": "sim/cycle", "serves_properties": [k for k, v in CHECKS.items() if v["engine"] == "cycle"], "kind_free_text": "one real coordination cycle against scripted sidecars under a PRNG-driven request scheduler"},
            {"name": "disco", "path": "sim/disco", "serves_properties": [k for k, v in CHECKS.items() if v["engine"] == "disco"], "kind_free_text": "real discovery + explorer + config callbacks under a yield-point scheduler (parks before every Lock()), sim-owned SD producer, forwarder and probe transport"},
            {"name": "world", "path": "sim/world", "serves_properties": [k for k, v in CHECKS.items() if v["engine"] == "world"], "kind_free_text": "closed loop: real coordinator + discovery + explorer + k8s managers + N real sidecars, stubs for Prometheus / API server / targets, discrete-event loop on the synctest fake clock"},
            {"name": "k8s", "path": "sim/k8seng", "serves_properties": [k for k, v in CHECKS.items() if v["engine"] == "k8s"], "kind_free_text": "real kubernetes shard managers against a client-go fake clientset with error reactors"},
            {"name": "cmdworld", "path": "sim/cmdworld", "serves_properties": ["C03", "C06", "C17", "C20"], "kind_free_text": "closed loop of the real command bodies: kvass coordinator (real Prometheus discovery manager over a simulated SD plug-in, static shard list) + one kvass sidecar per shard; end-to-end oracles only; runs as every 7th run of C03/C06 and every 37th of C17/C20"},
            {"name": "node", "path": "sim/node", "serves_properties": [k for k, v in CHECKS.items() if v["engine"] == "node"], "kind_free_text": "one real sidecar under drawn operation and fault sequences against a reference model; real net/http over net.Pipe for C13/C12"},
        ],
        "checks": checks,
        "not_applicable": na,
        "notes": "All checks: exit 0 held, 1 violation (VIOLATION line + replay file under /verif/replays), 2 machinery could not decide. Known findings: /verif/known_findings.json.",
    }
    json.dump(m, open('/verif/MANIFEST.json', 'w'), indent=1)
    print("checks:", len(checks), "not_applicable:", len(na))

main()
