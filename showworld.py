#!/usr/bin/env python3
import json,sys
r=json.load(open(sys.argv[1]))
n=int(sys.argv[2]) if len(sys.argv)>2 else 40
print(r['shrunk']); print(r['violation']['signature']); print(r['violation']['message'][:400])
sc=r['scenario']
print(json.dumps({k:v for k,v in sc['scenario'].items() if k not in ('targets',)})[:1200])
for t in sc['scenario']['targets']: print(t)
print("faults:",sc.get('faults'))
for h in sc['history'][:n]: print(h[:300])
