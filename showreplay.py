#!/usr/bin/env python3
import json,sys
for p in sys.argv[1:]:
    r=json.load(open(p))
    print("=====",p)
    print("shrunk:",r.get('shrunk'))
    print("violation:",r['violation']['signature'],'\n  ',r['violation']['message'][:600])
    sc=r.get('scenario') or {}
    if isinstance(sc,dict) and 'scenario' in sc:
        s=sc['scenario']
        print("opts:",{k:v for k,v in s.items() if k not in('targets','replicas')})
        for t in s['targets']: print("  target",json.dumps(t))
        for ri,rep in enumerate(s['replicas']):
            print("  replica",ri,{k:v for k,v in rep.items() if k!='shards'})
            for si,sh in enumerate(rep['shards']): print("    shard",si,json.dumps(sh))
        print("posts:",sc.get('posts'),"scale:",sc.get('scale_requests'))
    else:
        print(json.dumps(sc)[:3000])
    for l in r.get('log',[])[-40:]: print("  |",l[:300])
