// Package cycle is the cycle engine: one real coordination cycle
// (Coordinator.Run for exactly one runOnce) against scripted sidecars.
package cycle

import (
	"fmt"
	"time"

	"kvassverif/core"
)

type Copy struct {
	State  string `json:"state,omitempty"` // "" | in_transfer
	Health string `json:"health"`          // unknown | up | down
	Times  uint64 `json:"times"`
	Series int64  `json:"series"`
	Total  int64  `json:"total"`
}

type ExpSpec struct {
	Health string `json:"health"`
	Series int64  `json:"series"`
	Total  int64  `json:"total"`
}

type TargetSpec struct {
	Hash   uint64   `json:"hash"`
	Job    string   `json:"job"`
	Active bool     `json:"active"`
	Exp    *ExpSpec `json:"explore,omitempty"`
}

type ShardSpec struct {
	Ready       bool             `json:"ready"`
	ReadyFrom   int              `json:"ready_from_cycle,omitempty"` // not ready before this cycle (multi-cycle runs)
	StatusFail  string           `json:"status_fail,omitempty"`      // "", "503", "refused", "lost"
	RuntimeFail string           `json:"runtime_fail,omitempty"`     // same
	HashDiff    bool             `json:"hash_diff,omitempty"`
	Push        string           `json:"push,omitempty"` // accept | nochange | reject | refused | lost
	RereadFail  string           `json:"reread_fail,omitempty"`
	PostTargets string           `json:"post_targets,omitempty"` // "", "503", "refused", "lost"
	PostExtra   string           `json:"post_extra,omitempty"`
	Copies      map[uint64]*Copy `json:"copies,omitempty"`
	PromHead    int64            `json:"prom_head"`
	ProcSkew    int64            `json:"proc_skew,omitempty"`
	IdleAgo     *time.Duration   `json:"idle_ago,omitempty"`
}

type ReplicaSpec struct {
	ListErr       bool `json:"list_err,omitempty"`
	ScaleErrEarly bool `json:"scale_err_early,omitempty"`
	ScaleErrFinal bool `json:"scale_err_final,omitempty"`
	// multi-cycle runs: the listing starts failing in this cycle (0-based, >0), and the replica is not
	// returned at all in this cycle (a StatefulSet in rolling update / not ready is left out of the list)
	ListErrFrom int          `json:"list_err_from_cycle,omitempty"`
	AbsentIn    int          `json:"absent_in_cycle,omitempty"`
	Shards      []*ShardSpec `json:"shards"`
}

type Scenario struct {
	MaxHead          int64          `json:"max_head"`
	MaxProc          int64          `json:"max_proc"`
	MinShard         int32          `json:"min_shard"`
	MaxShard         int32          `json:"max_shard"`
	MaxIdle          time.Duration  `json:"max_idle"`
	DisableAlleviate bool           `json:"disable_alleviate,omitempty"`
	Targets          []*TargetSpec  `json:"targets"`
	Replicas         []*ReplicaSpec `json:"replicas"`
	StopReason       string         `json:"stop_reason,omitempty"`
	// ReplicaSeeds, when set, make the schedule of each replica (release order,
	// map permutation salt, math/rand seed) a function of that replica's own
	// seed, so that a replica sees the same schedule with and without the others.
	ReplicaSeeds []uint64 `json:"replica_seeds,omitempty"`
	Cycles       int      `json:"cycles,omitempty"` // number of consecutive cycles (default 1)
}

// Gen controls what the generator may produce.
type Gen struct {
	Replicas    int  // number of replicas (1 or 2)
	ReqFaults   bool // failing GETs / POSTs, unready shards, hash differences
	ReplicaErrs bool // list / scale errors
	MaxShards   int
	MaxTargets  int
	MultiCycle  bool // draw 1-3 consecutive cycles and shards that become ready later
	Thorough    bool // larger shapes: up to 7 shards and 12 targets
}

func sizes(lim int64) []int64 {
	if lim <= 0 {
		lim = 100
	}
	return []int64{1, 0, lim / 4, lim / 2, lim - 1, lim / 10, lim, lim + 1, 2 * lim}
}

func failKind(tp *core.Tape, label string, den int) string {
	if !tp.Bool(label, 1, den) {
		return ""
	}
	return core.Pick(tp, label+".kind", "503", "refused", "lost")
}

// Generate draws a scenario. Value 0 of every draw is the simplest alternative.
func Generate(tp *core.Tape, g Gen) *Scenario {
	sc := &Scenario{}
	sc.MaxProc = core.Pick(tp, "max_proc", int64(100), 10, 1000, 40)
	if tp.Bool("head_limit", 3, 5) {
		sc.MaxHead = core.Pick(tp, "max_head", int64(100), 10, 50, 1000)
	}
	sc.MinShard = int32(tp.Weighted("min_shard", 5, 3, 2, 1))
	switch tp.Weighted("max_shard_kind", 6, 3, 1) {
	case 0:
		sc.MaxShard = 100
	case 1:
		sc.MaxShard = sc.MinShard + int32(tp.Range("max_shard", 0, 5))
	default:
		sc.MaxShard = int32(tp.Range("max_shard_lt", 0, 3)) // may be below min
	}
	sc.MaxIdle = core.Pick(tp, "max_idle", time.Duration(0), 30*time.Second, 5*time.Minute)
	sc.DisableAlleviate = tp.Bool("disable_alleviate", 1, 5)

	lim := sc.MaxProc
	if sc.MaxHead != 0 {
		lim = sc.MaxHead
	}
	nT := 1 + tp.Weighted("targets", 2, 3, 4, 4, 3, 2, 1, 1)
	if g.Thorough && tp.Bool("more_targets", 1, 3) {
		nT += tp.Choose("extra_targets", 5)
	}
	if g.MaxTargets > 0 && nT > g.MaxTargets {
		nT = g.MaxTargets
	}
	for r := 0; r < g.Replicas; r++ {
		rs := &ReplicaSpec{}
		if g.ReplicaErrs {
			rs.ListErr = tp.Bool("list_err", 1, 8)
			rs.ScaleErrEarly = tp.Bool("scale_err_early", 1, 6)
			rs.ScaleErrFinal = tp.Bool("scale_err_final", 1, 6)
		}
		nS := 1 + tp.Weighted("shards", 2, 4, 4, 2, 1)
		if g.Thorough && tp.Bool("more_shards", 1, 4) {
			nS += tp.Choose("extra_shards", 3)
		}
		if g.MaxShards > 0 && nS > g.MaxShards {
			nS = g.MaxShards
		}
		for i := 0; i < nS; i++ {
			sh := &ShardSpec{Ready: true, Copies: map[uint64]*Copy{}}
			if g.ReqFaults {
				switch tp.Weighted("shard_health", 14, 1, 1, 1, 3) {
				case 1:
					sh.Ready = false
				case 2:
					sh.StatusFail = core.Pick(tp, "status_fail", "503", "refused", "lost")
				case 3:
					sh.RuntimeFail = core.Pick(tp, "runtime_fail", "503", "refused", "lost")
				case 4:
					sh.HashDiff = true
					sh.Push = core.Pick(tp, "push", "accept", "nochange", "reject", "refused", "lost")
					if sh.Push == "accept" || sh.Push == "nochange" {
						sh.RereadFail = failKind(tp, "reread_fail", 5)
					}
				}
				sh.PostTargets = failKind(tp, "post_targets_fail", 10)
				sh.PostExtra = failKind(tp, "post_extra_fail", 14)
			}
			rs.Shards = append(rs.Shards, sh)
		}
		sc.Replicas = append(sc.Replicas, rs)
	}
	szS := sizes(lim)
	for i := 0; i < nT; i++ {
		t := &TargetSpec{Hash: uint64(i + 1), Job: core.Pick(tp, "job", "j0", "j1"), Active: !tp.Bool("inactive", 1, 7)}
		series := szS[tp.Choose("series", len(szS))]
		total := series + core.Pick(tp, "total_extra", int64(0), 1, lim/2, sc.MaxProc, 3*sc.MaxProc)
		switch tp.Weighted("explore", 10, 2, 2, 2) {
		case 0:
			t.Exp = &ExpSpec{Health: "up", Series: series, Total: total}
		case 1:
			t.Exp = nil
		case 2:
			t.Exp = &ExpSpec{Health: "unknown"}
		case 3:
			t.Exp = &ExpSpec{Health: "down"}
		}
		sc.Targets = append(sc.Targets, t)
		for _, rs := range sc.Replicas {
			n := len(rs.Shards)
			mk := func(state string) *Copy {
				c := &Copy{State: state}
				c.Health = core.Pick(tp, "copy_health", "up", "up", "up", "unknown", "down")
				c.Times = core.Pick(tp, "copy_times", uint64(50), 0, 1, 2, 3, 4)
				c.Series = series
				c.Total = total
				if tp.Bool("copy_resize", 1, 4) {
					c.Series = szS[tp.Choose("copy_series", len(szS))]
					c.Total = c.Series + core.Pick(tp, "copy_total_extra", int64(0), 1, lim/2, sc.MaxProc)
				}
				return c
			}
			switch tp.Weighted("placement", 6, 5, 2, 2, 1, 1, 1) {
			case 0: // one normal copy
				rs.Shards[tp.Choose("holder", n)].Copies[t.Hash] = mk("")
			case 1: // unscraped
			case 2: // a move in progress: source in_transfer, destination normal
				if n >= 2 {
					p := tp.Perm("pair", n)
					rs.Shards[p[0]].Copies[t.Hash] = mk("in_transfer")
					rs.Shards[p[1]].Copies[t.Hash] = mk("")
				} else {
					rs.Shards[0].Copies[t.Hash] = mk("in_transfer")
				}
			case 3: // duplicate normal copies
				p := tp.Perm("pair", n)
				for k := 0; k < 2 && k < n; k++ {
					rs.Shards[p[k]].Copies[t.Hash] = mk("")
				}
			case 4: // stuck in_transfer copy without partner
				rs.Shards[tp.Choose("holder", n)].Copies[t.Hash] = mk("in_transfer")
			case 5: // two in_transfer copies
				p := tp.Perm("pair", n)
				for k := 0; k < 2 && k < n; k++ {
					rs.Shards[p[k]].Copies[t.Hash] = mk("in_transfer")
				}
			case 6: // arbitrary subset, arbitrary states
				for k := 0; k < n; k++ {
					if tp.Bool("sub", 1, 2) {
						rs.Shards[k].Copies[t.Hash] = mk(core.Pick(tp, "sub_state", "", "in_transfer"))
					}
				}
			}
		}
	}
	// drain flavour: scale-down enabled, every target held once in normal state and explored, the tail
	// shard holds several targets of which some are currently failing their scrapes (a failing target is
	// moved like any other and counts with the series of its last good scrape), healthy shards in front
	if tp.Bool("drain_flavour", 1, 8) {
		sc.MaxIdle = core.Pick(tp, "drain_max_idle", 30*time.Second, 5*time.Minute)
		for _, rs := range sc.Replicas {
			n := len(rs.Shards)
			if n < 2 {
				continue
			}
			for _, sh := range rs.Shards {
				sh.Copies = map[uint64]*Copy{}
			}
			for i, t := range sc.Targets {
				t.Active = true
				series := szS[tp.Choose("drain_series", len(szS)/2+1)]
				total := series + core.Pick(tp, "drain_total_extra", int64(0), 1, lim/4)
				t.Exp = &ExpSpec{Health: "up", Series: series, Total: total}
				holder := n - 1
				if i >= 3 || (i > 0 && tp.Bool("drain_in_front", 1, 3)) {
					holder = tp.Choose("drain_holder", n-1)
				}
				rs.Shards[holder].Copies[t.Hash] = &Copy{Health: core.Pick(tp, "drain_copy_health", "down", "up", "up"), Times: 50, Series: series, Total: total}
			}
		}
	}
	if g.MultiCycle {
		sc.Cycles = 1 + tp.Weighted("cycles", 2, 3, 2)
		if sc.Cycles > 1 {
			if len(sc.Replicas) > 1 && tp.Bool("positions_shift", 1, 4) {
				// in one later cycle the first replica is left out of the list while the second one's
				// listing fails: whatever a coordinator remembers about "replica number i" is then wrong
				c := 1 + tp.Choose("shift_cycle", sc.Cycles-1)
				sc.Replicas[0].AbsentIn = c
				sc.Replicas[1].ListErrFrom = c
			} else {
				for _, rs := range sc.Replicas {
					if tp.Bool("list_err_later", 1, 6) {
						rs.ListErrFrom = 1 + tp.Choose("list_err_from", sc.Cycles-1)
					}
				}
			}
			for _, rs := range sc.Replicas {
				if tp.Bool("replica_ready_later", 1, 3) {
					from := 1 + tp.Choose("ready_from", sc.Cycles-1)
					for _, sh := range rs.Shards {
						sh.ReadyFrom = from
					}
				}
			}
		}
	}
	if g.Replicas > 1 {
		for range sc.Replicas {
			sc.ReplicaSeeds = append(sc.ReplicaSeeds, uint64(tp.Choose("replica_seed", 1<<20)))
		}
	}
	for _, rs := range sc.Replicas {
		for _, sh := range rs.Shards {
			var sumS int64
			for _, c := range sh.Copies {
				sumS += c.Series
			}
			sh.PromHead = sumS + core.Pick(tp, "prom_head_extra", int64(0), 0, lim/2, lim, 2*lim, -sumS)
			if sh.PromHead < 0 {
				sh.PromHead = 0
			}
			if tp.Bool("proc_skew", 1, 10) {
				sh.ProcSkew = core.Pick(tp, "proc_skew_v", int64(1), -1, 5)
			}
			if len(sh.Copies) == 0 {
				d := core.Pick(tp, "idle_ago", time.Hour, 0, 10*time.Second, sc.MaxIdle-time.Second, sc.MaxIdle, sc.MaxIdle+time.Second)
				if d < 0 {
					d = 0
				}
				sh.IdleAgo = &d
			}
		}
	}
	return sc
}

func (s *Scenario) String() string { return fmt.Sprintf("%+v", *s) }
