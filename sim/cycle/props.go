package cycle

import (
	"fmt"
	"sort"
	"strings"
	"time"

	"kvassverif/core"
	"kvassverif/cyc"
)

var realCycle = []string{"coordinator.Coordinator (Run/runOnce, all of rebalance.go; map ranges under the overlay)", "shard.Shard", "pkg/api client + result envelope", "net/http client"}
var stubCycle = []string{"sidecars (scripted HTTP handlers answering generated reports)", "shard.Manager / ReplicasManager (scripted, records ChangeScale)", "explorer results and active set (generated)", "network (simnet transport)"}

func sample(sc *Scenario, out *Outcome) interface{} {
	posts := map[string]string{}
	scales := []string{}
	if out != nil && out.Trace != nil {
		for _, r := range out.Trace.Replicas {
			for _, s := range r.Shards {
				if s.Post != nil {
					var hs []string
					for _, h := range sortedKeys(s.Post) {
						hs = append(hs, fmt.Sprintf("%d:%s", h, s.Post[h].TargetState))
					}
					posts[s.ID] = strings.Join(hs, " ")
				}
			}
			for _, x := range r.Scale {
				scales = append(scales, fmt.Sprintf("%s->%d", r.ID, x.Value))
			}
		}
	}
	var rel []string
	if out != nil {
		rel = out.Releases
	}
	return map[string]interface{}{"scenario": sc, "release_order": rel, "posts": posts, "scale_requests": scales}
}

// coverage keys: per target, its copy pattern and what was decided about it
func targetKeys(e *core.Env, tr *cyc.CycleTrace) {
	for _, rep := range tr.Replicas {
		for h := range unionHashes(rep, tr) {
			var pat []string
			dec := map[string]bool{}
			for _, s := range rep.Shards {
				if s.Rep == nil {
					continue
				}
				st, had := s.Rep[h]
				_, after := s.Planned()[h]
				if had {
					sy := "sync"
					if !s.InSync {
						sy = "nosync"
					}
					pat = append(pat, fmt.Sprintf("%s/%s/%s", sy, stName(st.TargetState), tclass(st.ScrapeTimes)))
					if !after {
						dec["removed"] = true
					} else if s.Post != nil && s.Post[h].TargetState != st.TargetState {
						dec["restate"] = true
					}
				} else if after {
					dec["placed"] = true
				}
			}
			if len(dec) == 0 && len(pat) <= 1 {
				continue // trivial: single copy kept, or never touched
			}
			sort.Strings(pat)
			var ds []string
			for d := range dec {
				ds = append(ds, d)
			}
			sort.Strings(ds)
			_, act := tr.Active[h]
			e.Key(fmt.Sprintf("active=%v", act), strings.Join(pat, ","), strings.Join(ds, "+"))
		}
	}
}

func unionHashes(rep *cyc.ReplicaTrace, tr *cyc.CycleTrace) map[uint64]bool {
	u := map[uint64]bool{}
	for h := range tr.Active {
		u[h] = true
	}
	for _, s := range rep.Shards {
		for h := range s.Rep {
			u[h] = true
		}
		for h := range s.Post {
			u[h] = true
		}
	}
	return u
}

func stName(s string) string {
	if s == "" {
		return "normal"
	}
	return s
}

func tclass(n uint64) string {
	switch {
	case n == 0:
		return "0"
	case n < 3:
		return "1-2"
	}
	return ">=3"
}

func probes(e *core.Env, tr *cyc.CycleTrace, out *Outcome) {
	for _, rep := range tr.Replicas {
		for _, s := range rep.Shards {
			if !s.InSync {
				e.Probe("shard_out_of_sync")
			}
			if s.PushSeen {
				e.Probe("config_pushed")
			}
			if s.Post != nil {
				e.Probe("target_post")
				if !s.PostDelivered {
					e.Probe("target_post_not_delivered")
				}
				for h, t := range s.Post {
					if st, had := s.Rep[h]; had {
						if st.TargetState == "" && t.TargetState == "in_transfer" {
							e.Probe("transfer_started")
						}
					} else {
						e.Probe("target_placed")
					}
				}
				for h, st := range s.Rep {
					if _, still := s.Post[h]; !still {
						if st.TargetState == "in_transfer" {
							e.Probe("gc_handover")
						} else {
							e.Probe("gc_removed_normal_or_vanished")
						}
					}
				}
			}
		}
		count := int32(len(rep.Shards))
		for _, x := range rep.Scale {
			if x.Value > count {
				e.Probe("scale_up")
			} else if x.Value < count {
				e.Probe("scale_down")
			}
		}
	}
	for _, r := range out.Releases {
		if strings.HasSuffix(r, "fail-before") {
			e.Fault("request_refused")
		} else if strings.HasSuffix(r, "lose-response") {
			e.Fault("response_lost")
		}
	}
}

func countFaults(e *core.Env, sc *Scenario) {
	for _, r := range sc.Replicas {
		for _, s := range r.Shards {
			if !s.Ready {
				e.Fault("shard_not_ready")
			}
			if s.StatusFail != "" {
				e.Fault("get_fail_status")
			}
			if s.RuntimeFail != "" {
				e.Fault("get_fail_runtime")
			}
			if s.HashDiff {
				e.Fault("config_out_of_sync:" + s.Push)
			}
		}
	}
}

func cycleRun(which cyc.Which, g Gen) core.RunFunc {
	return func(tp *core.Tape, e *core.Env) {
		sc := Generate(tp, g)
		out := Run(tp, e, sc, nil)
		e.AddSim(out.Elapsed + 10*time.Second)
		tr := out.Trace
		if tr.Panic != "" {
			fr := core.TopKvassFrame(tr.Panic)
			if fr == "" {
				e.Undecided("panic outside kvass in the coordinator goroutine: %s", tr.Panic)
			} else if e.Property == "C01" {
				e.Violate("crash", "frame="+fr, "the coordination cycle panicked: %s", tr.Panic)
			} else {
				e.Undecided("cycle panicked (C01's business): %s", fr)
			}
		}
		cyc.Check(tr, which, cyc.EnvReporter{E: e})
		countFaults(e, sc)
		probes(e, tr, out)
		targetKeys(e, tr)
		e.SetSample(sample(sc, out))
	}
}

func reg(id string, w cyc.Which, g Gen, rule string) {
	core.Register(&core.Spec{
		ID: id, Engine: "cycle",
		Run:       cycleRun(w, g),
		QuickRuns: 40000, ThorRuns: 1500000, QuickCap: 60 * time.Second, ThorCap: 12 * time.Minute,
		Rule: rule,
		Real: realCycle, Stub: stubCycle,
		Assume: []string{"sidecar reports are restricted to what a sidecar can produce (idle-since iff empty, process = sum of totals, head >= sum of series) plus a small optional skew", "map ranges inside third-party packages keep Go's random order (shown harmless by the determinism self-check)"},
	})
}

const cycleRule = "one real coordination cycle per run over a generated scenario (options, 1-5 shards with readiness/request outcomes/config-hash relation/load reports, 1-8 targets with copy patterns incl. duplicates, pending and stuck transfers, explorer results) under a drawn completion order of the parallel requests, drawn map-iteration permutation and math/rand seed; "

func init() {
	reg("C04", cyc.Which{C04: true}, Gen{Replicas: 1, ReqFaults: true}, cycleRule+"a case is one (target copy pattern, scrape classes, active?) x (decision: placed/removed/restate); trivial = nothing placed, moved or removed")
	reg("C05", cyc.Which{C05: true}, Gen{Replicas: 1, ReqFaults: true}, cycleRule+"a case is one (target copy pattern incl. scrape classes of source and destination) x decision; trivial = no copy in transfer and no move")
	reg("C07", cyc.Which{C07: true}, Gen{Replicas: 1, ReqFaults: true}, cycleRule+"a case is one (target copy pattern) x decision, plus every scale request is checked; trivial = untouched target")
	reg("C08", cyc.Which{C08: true}, Gen{Replicas: 1, ReqFaults: true}, cycleRule+"a case is one (target copy pattern over in-sync / out-of-sync shards) x decision; trivial = untouched target")
	core.Register(&core.Spec{
		ID: "C01", Engine: "cycle",
		Run:       cycleRun(cyc.Which{C01: true}, Gen{Replicas: 1, ReqFaults: true}),
		QuickRuns: 40000, ThorRuns: 1500000, QuickCap: 60 * time.Second, ThorCap: 12 * time.Minute,
		Rule: "one real coordination cycle per run over a generated scenario (options, 1-5 shards with readiness/request outcomes/config-hash relation/load reports, 1-8 targets with copy patterns incl. duplicates, pending and stuck transfers, explorer results) under a drawn completion order of the parallel requests, drawn map-iteration permutation and math/rand seed; a case is one (target copy pattern over in-sync/out-of-sync shards, scrape classes, active?) x (decision: placed/removed/restate); trivial = single copy kept or untouched target",
		Real: realCycle, Stub: stubCycle,
		Assume: []string{"sidecar reports are restricted to what a sidecar can produce (idle-since iff empty, process = sum of totals, head >= sum of series) plus a small optional skew", "map ranges inside third-party packages keep Go's random order (shown harmless by the determinism self-check)"},
	})
}
