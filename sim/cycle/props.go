package cycle

import (
	"encoding/json"
	"fmt"
	"sort"
	"strings"
	"time"

	"kvassverif/core"
	"kvassverif/cyc"
)

var realCycle = []string{"coordinator.Coordinator (Run/runOnce, all of rebalance.go; map ranges under the overlay)", "shard.Shard", "pkg/api client + result envelope", "net/http client"}
var stubCycle = []string{"sidecars (scripted HTTP handlers answering generated reports)", "shard.Manager / ReplicasManager (scripted, records ChangeScale)", "explorer results and active set (generated)", "network (simnet transport)"}

func sample(sc *Scenario, out *Outcome) interface{} {
	posts := map[string]string{}
	scales := []string{}
	if out != nil && out.Trace != nil {
		for _, r := range out.Trace.Replicas {
			for _, s := range r.Shards {
				if s.Post != nil {
					var hs []string
					for _, h := range sortedKeys(s.Post) {
						hs = append(hs, fmt.Sprintf("%d:%s", h, s.Post[h].TargetState))
					}
					posts[s.ID] = strings.Join(hs, " ")
				}
			}
			for _, x := range r.Scale {
				scales = append(scales, fmt.Sprintf("%s->%d", r.ID, x.Value))
			}
		}
	}
	var rel []string
	if out != nil {
		rel = out.Releases
	}
	return map[string]interface{}{"scenario": sc, "release_order": rel, "posts": posts, "scale_requests": scales}
}

// coverage keys: per target, its copy pattern and what was decided about it
func targetKeys(e *core.Env, tr *cyc.CycleTrace) {
	for _, rep := range tr.Replicas {
		for h := range unionHashes(rep, tr) {
			var pat []string
			dec := map[string]bool{}
			for _, s := range rep.Shards {
				if s.Rep == nil {
					continue
				}
				st, had := s.Rep[h]
				_, after := s.Planned()[h]
				if had {
					sy := "sync"
					if !s.InSync {
						sy = "nosync"
					}
					pat = append(pat, fmt.Sprintf("%s/%s/%s", sy, stName(st.TargetState), tclass(st.ScrapeTimes)))
					if !after {
						dec["removed"] = true
					} else if s.Post != nil && s.Post[h].TargetState != st.TargetState {
						dec["restate"] = true
					}
				} else if after {
					dec["placed"] = true
				}
			}
			if len(dec) == 0 && len(pat) <= 1 {
				continue // trivial: single copy kept, or never touched
			}
			sort.Strings(pat)
			var ds []string
			for d := range dec {
				ds = append(ds, d)
			}
			sort.Strings(ds)
			_, act := tr.Active[h]
			e.Key(fmt.Sprintf("active=%v", act), strings.Join(pat, ","), strings.Join(ds, "+"))
		}
	}
}

func unionHashes(rep *cyc.ReplicaTrace, tr *cyc.CycleTrace) map[uint64]bool {
	u := map[uint64]bool{}
	for h := range tr.Active {
		u[h] = true
	}
	for _, s := range rep.Shards {
		for h := range s.Rep {
			u[h] = true
		}
		for h := range s.Post {
			u[h] = true
		}
	}
	return u
}

func stName(s string) string {
	if s == "" {
		return "normal"
	}
	return s
}

func tclass(n uint64) string {
	switch {
	case n == 0:
		return "0"
	case n < 3:
		return "1-2"
	}
	return ">=3"
}

func probes(e *core.Env, tr *cyc.CycleTrace, out *Outcome) {
	for _, rep := range tr.Replicas {
		for _, s := range rep.Shards {
			if !s.InSync {
				e.Probe("shard_out_of_sync")
			}
			if s.PushSeen {
				e.Probe("config_pushed")
			}
			if s.Post != nil {
				e.Probe("target_post")
				if !s.PostDelivered {
					e.Probe("target_post_not_delivered")
				}
				for h, t := range s.Post {
					if st, had := s.Rep[h]; had {
						if st.TargetState == "" && t.TargetState == "in_transfer" {
							e.Probe("transfer_started")
						}
					} else {
						e.Probe("target_placed")
					}
				}
				for h, st := range s.Rep {
					if _, still := s.Post[h]; !still {
						if st.TargetState == "in_transfer" {
							e.Probe("gc_handover")
						} else {
							e.Probe("gc_removed_normal_or_vanished")
						}
					}
				}
			}
		}
		count := int32(len(rep.Shards))
		for _, x := range rep.Scale {
			if x.Value > count {
				e.Probe("scale_up")
			} else if x.Value < count {
				e.Probe("scale_down")
			}
		}
	}
	for _, r := range out.Releases {
		if strings.HasSuffix(r, "fail-before") {
			e.Fault("request_refused")
		} else if strings.HasSuffix(r, "lose-response") {
			e.Fault("response_lost")
		}
	}
}

func countFaults(e *core.Env, sc *Scenario) {
	for _, r := range sc.Replicas {
		for _, s := range r.Shards {
			if !s.Ready {
				e.Fault("shard_not_ready")
			}
			if s.StatusFail != "" {
				e.Fault("get_fail_status")
			}
			if s.RuntimeFail != "" {
				e.Fault("get_fail_runtime")
			}
			if s.HashDiff {
				e.Fault("config_out_of_sync:" + s.Push)
			}
		}
	}
}

func cycleRun(which cyc.Which, g Gen) core.RunFunc {
	return func(tp *core.Tape, e *core.Env) {
		g := g
		g.Thorough = e.Thorough()
		sc := Generate(tp, g)
		out := Run(tp, e, sc, nil)
		e.AddSim(out.Elapsed + 10*time.Second)
		tr := out.Trace
		if tr.Panic != "" {
			fr := core.TopKvassFrame(tr.Panic)
			if fr == "" {
				e.Undecided("panic outside kvass in the coordinator goroutine: %s", tr.Panic)
			} else if e.Property == "C01" {
				e.Violate("crash", "frame="+fr, "the coordination cycle panicked: %s", tr.Panic)
			} else {
				// a crash is C01's business; this run says nothing about the other properties
				e.Probe("cycle_panicked_run_skipped")
				return
			}
		}
		cyc.Check(tr, which, cyc.EnvReporter{E: e})
		countFaults(e, sc)
		probes(e, tr, out)
		targetKeys(e, tr)
		e.SetSample(sample(sc, out))
	}
}

func reg(id string, w cyc.Which, g Gen, rule string) {
	core.Register(&core.Spec{
		ID: id, Engine: "cycle",
		Run:       cycleRun(w, g),
		QuickRuns: 80000, ThorRuns: 2000000, QuickCap: 60 * time.Second, ThorCap: 14 * time.Minute,
		Rule: rule,
		Real: realCycle, Stub: stubCycle,
		SchedLabels: []string{"release", "map_salt?", "map_salt.a", "map_salt.b", "rand_seed", "replica_seed", "inject_fault", "fault_kind", "fault_pod", "hold_scrape", "pod_order"},
		Assume:      []string{"sidecar reports are restricted to what a sidecar can produce (idle-since iff empty, process = sum of totals, head >= sum of series) plus a small optional skew", "map ranges inside third-party packages keep Go's random order (shown harmless by the determinism self-check)"},
	})
}

const cycleRule = "one real coordination cycle per run over a generated scenario (options, 1-5 shards with readiness/request outcomes/config-hash relation/load reports, 1-8 targets with copy patterns incl. duplicates, pending and stuck transfers, explorer results) under a drawn completion order of the parallel requests, drawn map-iteration permutation and math/rand seed; "

type c19Reporter struct{ e *core.Env }

func (r c19Reporter) Report(prop, clause, sig, msg string) {
	r.e.Violate("per-replica", prop+"/"+clause, "with two replicas, %s of %s is violated: %s", clause, prop, msg)
}

// replicaLog renders everything that was sent to one replica.
func replicaLog(o *Outcome, id string) []string {
	var out []string
	// per shard, in the order the shard received them, over all cycles of the run
	byHost := map[string][]string{}
	var hosts []string
	for _, c := range o.AllCalls {
		if !strings.HasPrefix(c.Host, id+"-") {
			continue
		}
		if _, ok := byHost[c.Host]; !ok {
			hosts = append(hosts, c.Host)
		}
		byHost[c.Host] = append(byHost[c.Host], fmt.Sprintf("%s %s %s %s body=%s", c.Host, c.Method, c.Path, c.Verdict, canonBody(c.ReqBody)))
	}
	sort.Strings(hosts)
	for _, h := range hosts {
		out = append(out, byHost[h]...)
	}
	for _, s := range o.AllScale {
		if strings.HasPrefix(s, id+":") {
			out = append(out, "scale "+s)
		}
	}
	return out
}

// canonBody: target lists inside one job may legitimately come in any order
func canonBody(b []byte) string {
	var v interface{}
	if len(b) == 0 || json.Unmarshal(b, &v) != nil {
		return string(b)
	}
	var canon func(x interface{}) interface{}
	canon = func(x interface{}) interface{} {
		switch t := x.(type) {
		case map[string]interface{}:
			for k, vv := range t {
				t[k] = canon(vv)
			}
			return t
		case []interface{}:
			ss := make([]string, len(t))
			for i, vv := range t {
				bb, _ := json.Marshal(canon(vv))
				ss[i] = string(bb)
			}
			sort.Strings(ss)
			out := make([]interface{}, len(ss))
			for i, x := range ss {
				out[i] = json.RawMessage(x)
			}
			return out
		}
		return x
	}
	bb, _ := json.Marshal(canon(v))
	return string(bb)
}

func otherClass(sc *Scenario, ri int) string {
	r := sc.Replicas[ri]
	switch {
	case r.ListErr:
		return "list-fails"
	case r.ScaleErrEarly || r.ScaleErrFinal:
		return "scale-fails"
	}
	ready := 0
	for _, s := range r.Shards {
		if s.Ready && s.StatusFail == "" && s.RuntimeFail == "" && !s.HashDiff {
			ready++
		}
	}
	if ready == 0 {
		return "nothing-in-sync"
	}
	return "coordinated"
}

func c19Run(tp *core.Tape, e *core.Env) {
	sc := Generate(tp, Gen{Replicas: 2, ReqFaults: true, ReplicaErrs: true, MaxShards: 4, MultiCycle: true, Thorough: e.Thorough()})
	both := Run(tp, e, sc, []int{0, 1})
	e.AddSim(both.Elapsed + 10*time.Second)
	if both.Trace.Panic != "" || both.Trace.Deadlock {
		if fr := core.TopKvassFrame(both.Trace.Panic); fr != "" || both.Trace.Deadlock {
			e.Violate("crash", "frame="+fr, "cycle with two replicas crashed or hung: %s", both.Trace.Panic)
		} else {
			e.Undecided("panic outside kvass: %s", both.Trace.Panic)
		}
		return
	}
	cyc.Check(both.Trace, cyc.All(), c19Reporter{e})
	for _, ri := range []int{1, 0} {
		alone := Run(tp, e, sc, []int{ri})
		id := fmt.Sprintf("r%d", ri)
		a, b := replicaLog(both, id), replicaLog(alone, id)
		if strings.Join(a, "\n") != strings.Join(b, "\n") {
			what := "requests"
			first := ""
			for i := 0; i < len(a) || i < len(b); i++ {
				var x, y string
				if i < len(a) {
					x = a[i]
				}
				if i < len(b) {
					y = b[i]
				}
				if x != y {
					first = fmt.Sprintf("with the other replica: %q; alone: %q", x, y)
					if strings.HasPrefix(x, "scale") || strings.HasPrefix(y, "scale") {
						what = "scale"
					} else if strings.Contains(x, "shard/targets") || strings.Contains(y, "shard/targets") {
						what = "target-update"
					}
					break
				}
			}
			pos := "second"
			if ri == 0 {
				pos = "first"
			}
			e.Violate("depends-on-other-replica", "differs="+what+",other="+otherClass(sc, 1-ri)+",position="+pos,
				"what replica %s is sent differs with and without the other replica: %s", id, first)
		}
		e.Key("other="+otherClass(sc, 1-ri), "self="+otherClass(sc, ri), fmt.Sprintf("requests=%v", len(a) > 0), fmt.Sprintf("cycles=%d", sc.Cycles))
	}
	countFaults(e, sc)
	probes(e, both.Trace, both)
	e.SetSample(sample(sc, both))
}

func init() {
	core.Register(&core.Spec{
		ID: "C19", Engine: "cycle", Run: c19Run,
		QuickRuns: 60000, ThorRuns: 1500000, QuickCap: 60 * time.Second, ThorCap: 12 * time.Minute,
		Rule: "differential: the same generated two-replica scenario is run as [A,B], [B] and [A] with per-replica schedules (release order, map permutation salt, math/rand seed are functions of the replica's own seed), and everything sent to a replica's shards and shard manager must be identical; every C01/C04/C05/C07/C08 oracle is also evaluated per replica on the two-replica trace; a case is (state class of the other replica: list-fails/scale-fails/nothing-in-sync/coordinated) x (own class) x (received requests?)",
		Real: realCycle, Stub: stubCycle,
		SchedLabels: []string{"release", "map_salt?", "map_salt.a", "map_salt.b", "rand_seed", "replica_seed", "inject_fault", "fault_kind", "fault_pod", "hold_scrape", "pod_order"},
		Assume:      []string{"replicas are coordinated one after another in the order the replicas manager lists them (so a per-replica re-seed at listing time gives each replica its own schedule)"},
	})
	reg("C04", cyc.Which{C04: true}, Gen{Replicas: 1, ReqFaults: true}, cycleRule+"a case is one (target copy pattern, scrape classes, active?) x (decision: placed/removed/restate); trivial = nothing placed, moved or removed")
	reg("C05", cyc.Which{C05: true}, Gen{Replicas: 1, ReqFaults: true}, cycleRule+"a case is one (target copy pattern incl. scrape classes of source and destination) x decision; trivial = no copy in transfer and no move")
	reg("C07", cyc.Which{C07: true}, Gen{Replicas: 1, ReqFaults: true}, cycleRule+"a case is one (target copy pattern) x decision, plus every scale request is checked; trivial = untouched target")
	reg("C08", cyc.Which{C08: true}, Gen{Replicas: 1, ReqFaults: true}, cycleRule+"a case is one (target copy pattern over in-sync / out-of-sync shards) x decision; trivial = untouched target")
	core.Register(&core.Spec{
		ID: "C01", Engine: "cycle",
		Run:       cycleRun(cyc.Which{C01: true}, Gen{Replicas: 1, ReqFaults: true}),
		QuickRuns: 80000, ThorRuns: 2000000, QuickCap: 60 * time.Second, ThorCap: 14 * time.Minute,
		Rule: "one real coordination cycle per run over a generated scenario (options, 1-5 shards with readiness/request outcomes/config-hash relation/load reports, 1-8 targets with copy patterns incl. duplicates, pending and stuck transfers, explorer results) under a drawn completion order of the parallel requests, drawn map-iteration permutation and math/rand seed; a case is one (target copy pattern over in-sync/out-of-sync shards, scrape classes, active?) x (decision: placed/removed/restate); trivial = single copy kept or untouched target",
		Real: realCycle, Stub: stubCycle,
		SchedLabels: []string{"release", "map_salt?", "map_salt.a", "map_salt.b", "rand_seed", "replica_seed", "inject_fault", "fault_kind", "fault_pod", "hold_scrape", "pod_order"},
		Assume:      []string{"sidecar reports are restricted to what a sidecar can produce (idle-since iff empty, process = sum of totals, head >= sum of series) plus a small optional skew", "map ranges inside third-party packages keep Go's random order (shown harmless by the determinism self-check)"},
	})
}
