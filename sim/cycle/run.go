package cycle

import (
	"context"
	"encoding/json"
	"fmt"
	"io"
	"math/rand"
	"net/http"
	"runtime/debug"
	"sort"
	"strings"
	"sync"
	"testing"
	"testing/synctest"
	"time"

	"github.com/prometheus/client_golang/prometheus"
	"github.com/prometheus/prometheus/model/labels"
	pscrape "github.com/prometheus/prometheus/scrape"
	"github.com/sirupsen/logrus"

	"kvassverif/core"
	"kvassverif/cyc"
	"kvassverif/simnet"

	"tkestack.io/kvass/pkg/api"
	"tkestack.io/kvass/pkg/coordinator"
	"tkestack.io/kvass/pkg/discovery"
	"tkestack.io/kvass/pkg/prom"
	"tkestack.io/kvass/pkg/shard"
	"tkestack.io/kvass/pkg/target"
	"tkestack.io/kvass/pkg/verifhook"
)

const CoordHash = "coord-hash-1"
const CoordRaw = "global:\n  scrape_interval: 15s\n"

func Quiet() *logrus.Logger {
	l := logrus.New()
	l.SetOutput(io.Discard)
	l.SetLevel(logrus.PanicLevel)
	return l
}

// scripted sidecar -----------------------------------------------------------

type scriptShard struct {
	mu      sync.Mutex
	spec    *ShardSpec
	start   time.Time
	curHash string
	nRT     int
	pushed  bool
}

func health(h string) pscrape.TargetHealth {
	switch h {
	case "up":
		return pscrape.HealthGood
	case "down":
		return pscrape.HealthBad
	}
	return pscrape.HealthUnknown
}

func (s *scriptShard) status() map[uint64]*target.ScrapeStatus {
	m := map[uint64]*target.ScrapeStatus{}
	for h, c := range s.spec.Copies {
		st := target.NewScrapeStatus(c.Series, c.Total)
		st.Health = health(c.Health)
		st.TargetState = c.State
		st.ScrapeTimes = c.Times
		if c.Health == "down" {
			st.LastError = "scrape failed"
		}
		m[h] = st
	}
	return m
}

func (s *scriptShard) runtime() *shard.RuntimeInfo {
	var sumS, sumT int64
	for _, c := range s.spec.Copies {
		sumS += c.Series
		sumT += c.Total
	}
	head := s.spec.PromHead
	if head < sumS {
		head = sumS
	}
	pt := sumT + s.spec.ProcSkew
	if pt < 0 {
		pt = 0
	}
	rt := &shard.RuntimeInfo{HeadSeries: head, ProcessSeries: pt, ConfigHash: s.curHash}
	if s.spec.IdleAgo != nil {
		t := s.start.Add(-*s.spec.IdleAgo)
		rt.IdleStartAt = &t
	}
	return rt
}

func writeJSON(w http.ResponseWriter, code int, v interface{}) {
	b, _ := json.Marshal(v)
	w.Header().Set("Content-Type", "application/json")
	w.WriteHeader(code)
	_, _ = w.Write(b)
}

func (s *scriptShard) ServeHTTP(w http.ResponseWriter, r *http.Request) {
	s.mu.Lock()
	defer s.mu.Unlock()
	fail := func() { writeJSON(w, 503, api.InternalErr(fmt.Errorf("scripted failure"), "sidecar")) }
	p := strings.TrimRight(r.URL.Path, "/")
	switch r.Method + " " + p {
	case "GET /api/v1/shard/targets/status":
		if s.spec.StatusFail == "503" {
			fail()
			return
		}
		writeJSON(w, 200, api.Data(s.status()))
	case "GET /api/v1/shard/runtimeinfo":
		if (s.nRT == 1 && s.spec.RuntimeFail == "503") || (s.nRT > 1 && s.spec.RereadFail == "503") {
			fail()
			return
		}
		writeJSON(w, 200, api.Data(s.runtime()))
	case "POST /api/v1/status/config":
		s.pushed = true
		switch s.spec.Push {
		case "accept", "lost":
			s.curHash = CoordHash
			writeJSON(w, 200, api.Data(nil))
		case "nochange":
			writeJSON(w, 200, api.Data(nil))
		default:
			writeJSON(w, 400, api.BadDataErr(fmt.Errorf("config file is set, raw content config update is not allowed"), ""))
		}
	case "POST /api/v1/shard/targets":
		if s.spec.PostTargets == "503" {
			fail()
			return
		}
		// like a sidecar: exactly the posted targets, kept ones keep their statistics,
		// the counter restarts when a copy goes from normal to in_transfer
		var req shard.UpdateTargetsRequest
		body, _ := io.ReadAll(r.Body)
		if json.Unmarshal(body, &req) == nil {
			nc := map[uint64]*Copy{}
			for _, ts := range req.Targets {
				for _, t := range ts {
					c := s.spec.Copies[t.Hash]
					if c == nil {
						c = &Copy{Health: "unknown", Series: t.Series, Total: t.TotalSeries}
					} else {
						cc := *c
						c = &cc
						if c.State == "" && t.TargetState == "in_transfer" {
							c.Times = 0
						}
					}
					c.State = t.TargetState
					nc[t.Hash] = c
				}
			}
			s.spec.Copies = nc
			if len(nc) == 0 && s.spec.IdleAgo == nil {
				d := time.Duration(0)
				s.spec.IdleAgo = &d
			}
			if len(nc) != 0 {
				s.spec.IdleAgo = nil
			}
		}
		writeJSON(w, 200, api.Data(nil))
	case "POST /api/v1/status/extra_config":
		if s.spec.PostExtra == "503" {
			fail()
			return
		}
		writeJSON(w, 200, api.Data(nil))
	default:
		w.WriteHeader(404)
	}
}

// verdict for a request given the scripted transport-level faults
func (s *scriptShard) verdict(c *simnet.Call) simnet.Verdict {
	s.mu.Lock()
	defer s.mu.Unlock()
	k := ""
	p := strings.TrimRight(c.Path, "/")
	switch c.Method + " " + p {
	case "GET /api/v1/shard/targets/status":
		k = s.spec.StatusFail
	case "GET /api/v1/shard/runtimeinfo":
		s.nRT++ // ordinal of this runtimeinfo request; the handler reads it
		if s.nRT == 1 {
			k = s.spec.RuntimeFail
		} else {
			k = s.spec.RereadFail
		}
	case "POST /api/v1/status/config":
		k = s.spec.Push
	case "POST /api/v1/shard/targets":
		k = s.spec.PostTargets
	case "POST /api/v1/status/extra_config":
		k = s.spec.PostExtra
	}
	switch k {
	case "refused":
		return simnet.FailBefore
	case "lost":
		return simnet.LoseResponse
	}
	return simnet.Deliver
}

// scripted shard manager -------------------------------------------------------

type manager struct {
	id     string
	spec   *ReplicaSpec
	hosts  []string
	net    *simnet.Net
	log    *logrus.Logger
	scale  []cyc.ScaleRec
	nScale int
	onList func()
	cycle  *int
}

func (m *manager) Shards() ([]*shard.Shard, error) {
	if m.onList != nil {
		m.onList()
	}
	if m.spec.ListErr || (m.spec.ListErrFrom > 0 && *m.cycle >= m.spec.ListErrFrom) {
		return nil, fmt.Errorf("scripted: list pods failed")
	}
	var out []*shard.Shard
	for i, sh := range m.spec.Shards {
		out = append(out, shard.NewShard(m.hosts[i], "http://"+m.hosts[i], sh.Ready && *m.cycle >= sh.ReadyFrom, m.log))
	}
	return out, nil
}

func (m *manager) ChangeScale(n int32) error {
	m.nScale++
	rec := cyc.ScaleRec{Seq: m.net.Seq(), Value: n, Now: time.Now()}
	// an "early" request is followed by more requests of the cycle; the scripted
	// error flags apply by ordinal: if two requests are made the first is early
	if (m.nScale == 1 && m.spec.ScaleErrEarly) || (m.nScale >= 2 && m.spec.ScaleErrFinal) {
		rec.Err = true
	}
	m.scale = append(m.scale, rec)
	if rec.Err {
		return fmt.Errorf("scripted: update statefulset failed")
	}
	return nil
}

type replicas struct {
	ms    []shard.Manager
	calls int
	cycle *int
	reset func()
}

func (r *replicas) Replicas() ([]shard.Manager, error) {
	*r.cycle = r.calls
	r.calls++
	if r.reset != nil {
		r.reset()
	}
	var out []shard.Manager
	for _, m := range r.ms {
		if sm, ok := m.(*manager); ok && sm.spec.AbsentIn > 0 && sm.spec.AbsentIn == *r.cycle {
			continue
		}
		out = append(out, m)
	}
	return out, nil
}

// one cycle -------------------------------------------------------------------

type Outcome struct {
	Trace    *cyc.CycleTrace
	Releases []string // release order of requests (host method path)
	Elapsed  time.Duration
	AllCalls []*simnet.Call // every request of every cycle
	AllScale []string
}

func scaleValues(s []cyc.ScaleRec) []int32 {
	var v []int32
	for _, x := range s {
		v = append(v, x.Value)
	}
	return v
}

var bubbleStart = time.Date(2000, 1, 1, 0, 0, 0, 0, time.UTC)

// Run executes one coordination cycle of the real coordinator over the scenario.
// replicaSel selects which replicas of the scenario exist (nil = all).
func Run(tp *core.Tape, e *core.Env, sc *Scenario, replicaSel []int) (out *Outcome) {
	out = &Outcome{}
	defer func() {
		if r := recover(); r != nil {
			// synctest's deadlock panic or a panic of the simulation loop itself
			msg := fmt.Sprint(r)
			if strings.Contains(msg, "deadlock") {
				if out.Trace == nil {
					out.Trace = &cyc.CycleTrace{}
				}
				out.Trace.Deadlock = true
				return
			}
			panic(r)
		}
	}()
	synctest.Test(e.T, func(t *testing.T) {
		runInBubble(tp, e, sc, replicaSel, out)
	})
	return out
}

func runInBubble(tp *core.Tape, e *core.Env, sc *Scenario, replicaSel []int, out *Outcome) {
	start := time.Now()
	net := simnet.New()
	oldT := http.DefaultTransport
	http.DefaultTransport = net
	defer func() { http.DefaultTransport = oldT }()
	log := Quiet()

	if replicaSel == nil {
		for i := range sc.Replicas {
			replicaSel = append(replicaSel, i)
		}
	}
	shards := map[string]*scriptShard{}
	subRand := map[string]*core.Rand{}
	var mgrs []*manager
	cycleNo := 0
	rm := &replicas{cycle: &cycleNo}
	rm.reset = func() {
		for _, m := range mgrs {
			m.nScale = 0
		}
		for _, ss := range shards {
			ss.mu.Lock()
			ss.nRT = 0
			ss.mu.Unlock()
		}
	}
	for _, ri := range replicaSel {
		// the scripted sidecars mutate their copies when targets are posted: work on a private copy
		rs := &ReplicaSpec{ListErr: sc.Replicas[ri].ListErr, ScaleErrEarly: sc.Replicas[ri].ScaleErrEarly, ScaleErrFinal: sc.Replicas[ri].ScaleErrFinal,
			ListErrFrom: sc.Replicas[ri].ListErrFrom, AbsentIn: sc.Replicas[ri].AbsentIn}
		for _, sh := range sc.Replicas[ri].Shards {
			c := *sh
			c.Copies = map[uint64]*Copy{}
			for h, cp := range sh.Copies {
				cc := *cp
				c.Copies[h] = &cc
			}
			if sh.IdleAgo != nil {
				d := *sh.IdleAgo
				c.IdleAgo = &d
			}
			rs.Shards = append(rs.Shards, &c)
		}
		m := &manager{id: fmt.Sprintf("r%d", ri), spec: rs, net: net, log: log, cycle: &cycleNo}
		for i, sh := range rs.Shards {
			host := fmt.Sprintf("r%d-s%d", ri, i)
			m.hosts = append(m.hosts, host)
			ss := &scriptShard{spec: sh, start: start, curHash: CoordHash}
			if sh.HashDiff {
				ss.curHash = "stale-hash"
			}
			shards[host] = ss
			net.Handle(host, ss)
		}
		// per-replica schedule: salt and math/rand are re-seeded when this
		// replica's shards are listed (replicas are coordinated one after another)
		if sc.ReplicaSeeds != nil {
			seed := sc.ReplicaSeeds[ri]
			m.onList = func() {
				if seed == 0 {
					verifhook.SetSalt(0)
				} else {
					verifhook.SetSalt(seed | 1<<40)
				}
				rand.Seed(int64(seed))
			}
			subRand[fmt.Sprintf("r%d", ri)] = core.NewRand(seed)
		}
		mgrs = append(mgrs, m)
		rm.ms = append(rm.ms, m)
	}

	active := map[uint64]*discovery.SDTargets{}
	explore := map[uint64]*target.ScrapeStatus{}
	tr := &cyc.CycleTrace{
		Opt: cyc.Options{MaxHeadSeries: sc.MaxHead, MaxProcessSeries: sc.MaxProc, MaxShard: sc.MaxShard, MinShard: sc.MinShard,
			MaxIdleTime: sc.MaxIdle, DisableAlleviate: sc.DisableAlleviate},
		CoordHash: CoordHash, Raw: CoordRaw,
		Active: map[uint64]string{}, Explore: map[uint64]*cyc.ExpRes{},
	}
	out.Trace = tr
	for _, t := range sc.Targets {
		if t.Active {
			active[t.Hash] = &discovery.SDTargets{Job: t.Job, ShardTarget: &target.Target{Hash: t.Hash,
				Labels: labels.Labels{{Name: "__address__", Value: fmt.Sprintf("t%d:80", t.Hash)}, {Name: "__scheme__", Value: "http"}, {Name: "__metrics_path__", Value: "/metrics"}, {Name: "job", Value: t.Job}}}}
			tr.Active[t.Hash] = t.Job
		}
		if t.Exp != nil {
			st := target.NewScrapeStatus(t.Exp.Series, t.Exp.Total)
			st.Health = health(t.Exp.Health)
			explore[t.Hash] = st
			tr.Explore[t.Hash] = &cyc.ExpRes{Health: t.Exp.Health, Series: t.Exp.Series, Total: t.Exp.Total}
		}
	}
	cfg := &prom.ConfigInfo{RawContent: []byte(CoordRaw), ConfigHash: CoordHash, Config: prom.DefaultConfig.Config,
		ExtraConfig: &prom.ExtraConfig{StopScrapeReason: sc.StopReason}}
	opt := &coordinator.Option{MaxHeadSeries: sc.MaxHead, MaxProcessSeries: sc.MaxProc, MaxShard: sc.MaxShard, MinShard: sc.MinShard,
		MaxIdleTime: sc.MaxIdle, Period: 10 * time.Second, DisableAlleviate: sc.DisableAlleviate}
	co := coordinator.NewCoordinator(opt, rm,
		func() *prom.ConfigInfo { return cfg },
		func(h uint64) *target.ScrapeStatus { return explore[h] },
		func() map[uint64]*discovery.SDTargets {
			m := map[uint64]*discovery.SDTargets{}
			for k, v := range active {
				m[k] = v
			}
			return m
		},
		prometheus.NewRegistry(), log)

	verifhook.SetSalt(tp.Salt("map_salt"))
	rand.Seed(int64(tp.Choose("rand_seed", 1<<16)))

	ctx, cancel := context.WithCancel(context.Background())
	done := make(chan struct{})
	var panicMsg string
	go func() {
		defer close(done)
		defer func() {
			if r := recover(); r != nil {
				panicMsg = fmt.Sprintf("%v\n%s", r, debug.Stack())
			}
		}()
		_ = co.Run(ctx)
	}()
	finished := func() bool {
		select {
		case <-done:
			return true
		default:
			return false
		}
	}
	steps := 0
	cyclesLeft := sc.Cycles
	if cyclesLeft < 1 {
		cyclesLeft = 1
	}
	firstCycleEnd, firstDone := 0, false
	for {
		synctest.Wait()
		if finished() {
			break
		}
		pend := net.Pending()
		if len(pend) == 0 {
			// coordinator asleep in its Period: the cycle is over
			cyclesLeft--
			if !firstDone {
				firstCycleEnd, firstDone = net.Seq(), true
			}
			if cyclesLeft <= 0 {
				break
			}
			// let the period pass (at an instant of its own) so that the next cycle starts
			time.Sleep(opt.Period + time.Duration(137*(sc.Cycles-cyclesLeft))*time.Microsecond)
			continue
		}
		steps++
		if steps > 2000 {
			e.Undecided("cycle engine: step cap reached")
			break
		}
		var c *simnet.Call
		if sr := subRand[strings.SplitN(pend[0].Host, "-", 2)[0]]; sr != nil {
			c = pend[int(sr.Uint64()%uint64(len(pend)))]
		} else {
			c = pend[tp.Choose("release", len(pend))]
		}
		v := simnet.Deliver
		if ss := shards[c.Host]; ss != nil {
			v = ss.verdict(c)
		}
		net.Release(c, v)
		out.Releases = append(out.Releases, fmt.Sprintf("%s %s %s %s", c.Host, c.Method, c.Path, v))
	}
	cancel()
	if !finished() {
		time.Sleep(opt.Period + time.Second)
		synctest.Wait()
		net.AbortAll()
		synctest.Wait()
		if !finished() {
			tr.Deadlock = true
		}
	}
	tr.Panic = panicMsg
	verifhook.SetSalt(0)
	out.Elapsed = time.Since(start)

	// build the trace of the first cycle (the cycle oracles look at one cycle)
	byHost := map[string][]*simnet.Call{}
	for _, c := range net.Log {
		out.AllCalls = append(out.AllCalls, c)
		if firstDone && c.Seq > firstCycleEnd {
			continue
		}
		byHost[c.Host] = append(byHost[c.Host], c)
	}
	for _, m := range mgrs {
		out.AllScale = append(out.AllScale, fmt.Sprintf("%s:%v", m.id, scaleValues(m.scale)))
	}
	for mi, m := range mgrs {
		var firstScale []cyc.ScaleRec
		for _, x := range m.scale {
			if !firstDone || x.Seq <= firstCycleEnd {
				firstScale = append(firstScale, x)
			}
		}
		rt := &cyc.ReplicaTrace{ID: m.id, ListErr: m.spec.ListErr, Scale: firstScale}
		for i, h := range m.hosts {
			st := cyc.BuildShard(h, m.spec.Shards[i].Ready && m.spec.Shards[i].ReadyFrom == 0, byHost[h], CoordHash)
			sp := sc.Replicas[replicaSel[mi]].Shards[i]
			st.Truth = map[uint64]string{}
			for hh, c := range sp.Copies {
				st.Truth[hh] = c.State
			}
			st.StatusWouldAnswer = sp.Ready && sp.StatusFail == ""
			for _, c := range st.Calls {
				if c.Seq > rt.LastSeq {
					rt.LastSeq = c.Seq
				}
			}
			rt.Shards = append(rt.Shards, st)
		}
		tr.Replicas = append(tr.Replicas, rt)
	}
	// event log (canonical): releases, posts, scale requests
	for _, r := range out.Releases {
		e.Logf("release %s", r)
	}
	for _, rt := range tr.Replicas {
		for _, s := range rt.Shards {
			if s.Post != nil {
				hs := make([]string, 0, len(s.Post))
				for _, h := range sortedKeys(s.Post) {
					hs = append(hs, fmt.Sprintf("%d:%s", h, s.Post[h].TargetState))
				}
				e.Logf("post %s [%s] delivered=%v", s.ID, strings.Join(hs, " "), s.PostDelivered)
			}
		}
		for _, sc := range rt.Scale {
			e.Logf("scale %s -> %d err=%v seq=%d", rt.ID, sc.Value, sc.Err, sc.Seq)
		}
	}
	e.Logf("elapsed %s panic=%v deadlock=%v", out.Elapsed, panicMsg != "", tr.Deadlock)
}

func sortedKeys[V any](m map[uint64]V) []uint64 {
	out := make([]uint64, 0, len(m))
	for h := range m {
		out = append(out, h)
	}
	sort.Slice(out, func(a, b int) bool { return out[a] < out[b] })
	return out
}
