// Package core holds the parts every engine shares: the choice tape (the one
// source of randomness), violations and signatures, replay files, known
// findings, the worker/driver protocol, the shrinker and the evidence writer.
package core

import (
	"fmt"
	"hash/fnv"
)

// ---------------------------------------------------------------- PRNG

type Rand struct{ s [4]uint64 }

func splitmix(x *uint64) uint64 {
	*x += 0x9e3779b97f4a7c15
	z := *x
	z = (z ^ (z >> 30)) * 0xbf58476d1ce4e5b9
	z = (z ^ (z >> 27)) * 0x94d049bb133111eb
	return z ^ (z >> 31)
}

func NewRand(seed uint64) *Rand {
	r := &Rand{}
	x := seed
	for i := range r.s {
		r.s[i] = splitmix(&x)
	}
	return r
}

func rotl(x uint64, k uint) uint64 { return (x << k) | (x >> (64 - k)) }

func (r *Rand) Uint64() uint64 {
	res := rotl(r.s[1]*5, 7) * 9
	t := r.s[1] << 17
	r.s[2] ^= r.s[0]
	r.s[3] ^= r.s[1]
	r.s[1] ^= r.s[2]
	r.s[0] ^= r.s[3]
	r.s[2] ^= t
	r.s[3] = rotl(r.s[3], 45)
	return res
}

// Mix derives a run seed from the check seed, the property and the run index.
func Mix(seed uint64, prop string, run int) uint64 {
	h := fnv.New64a()
	_, _ = h.Write([]byte(prop))
	x := seed ^ h.Sum64() ^ (uint64(run) * 0x9e3779b97f4a7c15)
	return splitmix(&x)
}

// ---------------------------------------------------------------- tape

// Draw is one recorded choice.
type Draw struct {
	L string `json:"l"` // label (what was being decided)
	N uint64 `json:"n"` // number of alternatives
	V uint64 `json:"v"` // value chosen, 0 <= V < N
}

// Tape is the only source of nondeterminism of a run. In generation mode the
// values come from the PRNG; in replay mode they come from a recorded list. In
// lenient replay (used by the shrinker) a value out of range is reduced modulo
// N and an exhausted list yields zeros ("simplest choice"); in strict replay any
// mismatch of label or bound marks the run as diverged.
type Tape struct {
	Rec      []Draw
	feed     []Draw
	pos      int
	rng      *Rand
	strict   bool
	Diverged string
	Limit    int // max draws (0 = unlimited); exceeding marks overflow
	Overflow bool
}

func NewTape(seed uint64) *Tape { return &Tape{rng: NewRand(seed)} }

func ReplayTape(feed []Draw, strict bool) *Tape {
	return &Tape{feed: feed, strict: strict, rng: nil}
}

func (t *Tape) Replaying() bool { return t.rng == nil }

// Choose returns a value in [0, n). n <= 1 returns 0 without consuming a draw.
func (t *Tape) Choose(label string, n int) int {
	if n <= 1 {
		return 0
	}
	if t.Limit > 0 && len(t.Rec) >= t.Limit {
		t.Overflow = true
		return 0
	}
	var v uint64
	if t.rng != nil {
		v = t.rng.Uint64() % uint64(n)
	} else if t.pos < len(t.feed) {
		d := t.feed[t.pos]
		t.pos++
		if t.strict && (d.L != label || d.N != uint64(n)) && t.Diverged == "" {
			t.Diverged = fmt.Sprintf("draw %d: recorded (%s,%d) but run asked (%s,%d)", t.pos-1, d.L, d.N, label, n)
		}
		v = d.V % uint64(n)
	} else {
		if t.strict && t.Diverged == "" {
			t.Diverged = fmt.Sprintf("draw %d: tape exhausted at (%s,%d)", t.pos, label, n)
		}
		t.pos++
		v = 0
	}
	t.Rec = append(t.Rec, Draw{label, uint64(n), v})
	return int(v)
}

// Bool is true with probability num/den; false is the "simple" value 0.
func (t *Tape) Bool(label string, num, den int) bool {
	if num <= 0 {
		return false
	}
	if num >= den {
		return true
	}
	// value 0 must mean false: true iff v >= den-num
	return t.Choose(label, den) >= den-num
}

// Range returns an int in [lo, hi].
func (t *Tape) Range(label string, lo, hi int) int {
	if hi <= lo {
		return lo
	}
	return lo + t.Choose(label, hi-lo+1)
}

// Weighted picks an index with the given integer weights; index 0 should be the
// simplest alternative.
func (t *Tape) Weighted(label string, w ...int) int {
	tot := 0
	for _, x := range w {
		tot += x
	}
	if tot <= 0 {
		return 0
	}
	v := t.Choose(label, tot)
	for i, x := range w {
		if v < x {
			return i
		}
		v -= x
	}
	return len(w) - 1
}

// Pick returns one of the given values uniformly.
func Pick[T any](t *Tape, label string, vals ...T) T {
	return vals[t.Choose(label, len(vals))]
}

// Perm returns a permutation of 0..n-1; all-zero draws give the identity.
func (t *Tape) Perm(label string, n int) []int {
	p := make([]int, n)
	for i := range p {
		p[i] = i
	}
	for i := 0; i < n-1; i++ {
		j := i + t.Choose(label, n-i)
		p[i], p[j] = p[j], p[i]
	}
	return p
}

// Salt draws a 64-bit value in small pieces; 0 when all draws are 0.
func (t *Tape) Salt(label string) uint64 {
	if !t.Bool(label+"?", 7, 8) {
		return 0
	}
	a := uint64(t.Choose(label+".a", 1<<16))
	b := uint64(t.Choose(label+".b", 1<<16))
	return a<<16 | b | 1<<40
}
