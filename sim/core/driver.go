package core

import (
	"bufio"
	"bytes"
	"encoding/json"
	"flag"
	"fmt"
	"os"
	"os/exec"
	"path/filepath"
	"regexp"
	"runtime"
	"sort"
	"strconv"
	"strings"
	"sync"
	"testing"
	"time"
)

// VerifDir is where known_findings.json, evidence/ and replays/ live.
var VerifDir = func() string {
	if d := os.Getenv("VERIF_DIR"); d != "" {
		return d
	}
	return "/verif"
}()

// ---------------------------------------------------------------- worker

type wline struct {
	T     string      `json:"t"` // start | res | sum
	Run   int         `json:"run"`
	H     string      `json:"h,omitempty"`
	Ev    int         `json:"ev,omitempty"`
	Viol  []Violation `json:"viol,omitempty"`
	Tape  []Draw      `json:"tape,omitempty"`
	Keys  []string    `json:"keys,omitempty"`
	Und   string      `json:"und,omitempty"`
	Samp  interface{} `json:"samp,omitempty"`
	Sum   *wsum       `json:"sum,omitempty"`
	Avoid bool        `json:"avoid,omitempty"`
}

type wsum struct {
	Runs    int            `json:"runs"`
	Faults  map[string]int `json:"faults"`
	Probes  map[string]int `json:"probes"`
	SimNs   int64          `json:"sim_ns"`
	Inconcl int            `json:"inconclusive"`
	Exh     int            `json:"exhaustive"`
	Trivial int            `json:"trivial"`
	Draws   int64          `json:"draws"`
}

func workerMain(args []string, t *testing.T) int {
	fs := flag.NewFlagSet("worker", flag.ContinueOnError)
	prop := fs.String("prop", "", "")
	tier := fs.String("tier", "quick", "")
	seed := fs.Uint64("seed", 1, "")
	from := fs.Int("from", 0, "")
	stride := fs.Int("stride", 1, "")
	total := fs.Int("total", 1, "")
	only := fs.String("only", "", "comma separated run indexes (overrides from/stride/total)")
	out := fs.String("out", "", "")
	deadline := fs.Int64("deadline", 0, "unix ms; stop starting new runs after it")
	hashesOnly := fs.Bool("hashes", false, "emit only log hashes (determinism self-check)")
	if err := fs.Parse(args); err != nil {
		return 2
	}
	spec, err := Lookup(*prop)
	if err != nil {
		fmt.Fprintln(os.Stderr, err)
		return 2
	}
	known, err := LoadKnown(filepath.Join(VerifDir, "known_findings.json"))
	if err != nil {
		fmt.Fprintln(os.Stderr, "known_findings.json:", err)
		return 2
	}
	f, err := os.Create(*out)
	if err != nil {
		fmt.Fprintln(os.Stderr, err)
		return 2
	}
	defer f.Close()
	w := bufio.NewWriter(f)
	emit := func(l *wline, flush bool) {
		b, _ := json.Marshal(l)
		_, _ = w.Write(b)
		_ = w.WriteByte('\n')
		if flush {
			_ = w.Flush()
		}
	}
	scratch, _ := os.MkdirTemp("", "kvsim-w-")
	defer os.RemoveAll(scratch)

	var runs []int
	if *only != "" {
		for _, s := range strings.Split(*only, ",") {
			n, _ := strconv.Atoi(s)
			runs = append(runs, n)
		}
	} else {
		for i := *from; i < *total; i += *stride {
			runs = append(runs, i)
		}
	}
	sum := &wsum{Faults: map[string]int{}, Probes: map[string]int{}}
	schedSet := map[uint64]struct{}{}
	schedLabel := map[string]bool{}
	for _, l := range spec.SchedLabels {
		schedLabel[l] = true
	}
	seen := map[string]bool{}
	samples := 0
	for _, i := range runs {
		if *deadline > 0 && time.Now().UnixMilli() > *deadline {
			break
		}
		emit(&wline{T: "start", Run: i}, true)
		res, tp := RunSeeded(spec, *tier, *seed, i, t, known, scratch, false)
		l := &wline{T: "res", Run: i, H: res.LogHash, Ev: res.Events}
		if !*hashesOnly {
			for _, k := range res.Keys {
				if !seen[k] {
					seen[k] = true
					l.Keys = append(l.Keys, k)
				}
			}
			if len(res.Keys) == 0 {
				sum.Trivial++
			}
			if len(res.Violations) > 0 || res.Undecided != "" {
				l.Viol = res.Violations
				l.Tape = tp.Rec
				l.Und = res.Undecided
				l.Avoid = AvoidFor(i)
			}
			if res.Sample != nil && samples < 2 && len(res.Keys) > 0 {
				samples++
				l.Samp = res.Sample
			}
			for k, v := range res.Faults {
				sum.Faults[k] += v
			}
			for k, v := range res.Probes {
				sum.Probes[k] += v
			}
			sum.SimNs += int64(res.SimTime)
			sum.Inconcl += res.Inconcl
			sum.Exh += res.Exhaustive
			sum.Draws += int64(len(tp.Rec))
			if len(schedLabel) > 0 {
				h := uint64(14695981039346656037)
				n := 0
				for _, d := range tp.Rec {
					if schedLabel[d.L] {
						n++
						h = (h ^ d.V ^ (d.N << 32)) * 1099511628211
					}
				}
				if n > 0 {
					schedSet[h] = struct{}{}
				}
			}
		}
		sum.Runs++
		emit(l, len(l.Viol) > 0)
	}
	if len(schedSet) > 0 {
		// binary side file: the driver counts the union over all workers
		buf := make([]byte, 0, 8*len(schedSet))
		for h := range schedSet {
			for k := 0; k < 8; k++ {
				buf = append(buf, byte(h>>(8*k)))
			}
		}
		_ = os.WriteFile(*out+".sched", buf, 0o644)
	}
	emit(&wline{T: "sum", Sum: sum}, true)
	return 0
}

// ---------------------------------------------------------------- driver

type foundViol struct {
	v     Violation
	run   int
	tape  []Draw
	avoid bool
	count int
}

type Evidence struct {
	PropertyID  string                 `json:"property_id"`
	Tier        string                 `json:"tier"`
	Seed        int64                  `json:"seed"`
	Level       string                 `json:"level"`
	Coverage    map[string]interface{} `json:"coverage"`
	Assumptions []string               `json:"assumptions"`
	WallS       float64                `json:"wall_s"`
	Violations  int                    `json:"violations"`
}

func self() string {
	p, err := os.Executable()
	if err != nil {
		return os.Args[0]
	}
	return p
}

func checkMain(args []string, t *testing.T) int {
	fs := flag.NewFlagSet("check", flag.ContinueOnError)
	prop := fs.String("prop", "", "")
	tier := fs.String("tier", "", "")
	seedF := fs.Int64("seed", -1, "")
	workers := fs.Int("workers", 0, "")
	runsF := fs.Int("runs", 0, "override run count")
	capF := fs.Duration("cap", 0, "override wall-clock cap of the exploration phase")
	shrinkKnown := fs.Bool("shrink-known", false, "also minimise and keep replay files for known findings")
	noEvidence := fs.Bool("no-evidence", false, "do not write the evidence file")
	tree := fs.String("tree", "", "description of the kvass tree (git describe + dirty hash)")
	rewrite := fs.String("rewrite-report", "", "rewrite_report.json of the overlay")
	if err := fs.Parse(args); err != nil {
		return 2
	}
	start := time.Now()
	spec, err := Lookup(*prop)
	if err != nil {
		fmt.Fprintln(os.Stderr, err)
		return 2
	}
	if *tier == "" {
		*tier = os.Getenv("VERIF_TIER")
	}
	if *tier != "thorough" {
		*tier = "quick"
	}
	seed := int64(1)
	if s := os.Getenv("VERIF_SEED"); s != "" {
		if n, err := strconv.ParseInt(s, 10, 64); err == nil {
			seed = n
		}
	}
	if *seedF >= 0 {
		seed = *seedF
	}
	known, err := LoadKnown(filepath.Join(VerifDir, "known_findings.json"))
	if err != nil {
		fmt.Fprintln(os.Stderr, "known_findings.json:", err)
		return 2
	}
	total, cap := spec.QuickRuns, spec.QuickCap
	if *tier == "thorough" {
		total, cap = spec.ThorRuns, spec.ThorCap
	}
	if *runsF > 0 {
		total = *runsF
	}
	if *capF > 0 {
		cap = *capF
	}
	if cap == 0 {
		cap = 90 * time.Second
	}
	nw := *workers
	if nw == 0 {
		nw = spec.Workers
	}
	if nw == 0 {
		nw = runtime.NumCPU()
		if nw > 16 {
			nw = 16
		}
	}
	if nw > total {
		nw = total
	}
	scratch, err := os.MkdirTemp("", "kvsim-d-")
	if err != nil {
		fmt.Fprintln(os.Stderr, err)
		return 2
	}
	defer os.RemoveAll(scratch)
	fmt.Printf("check %s tier=%s seed=%d runs=%d workers=%d cap=%s\n", spec.ID, *tier, seed, total, nw, cap)

	deadline := time.Now().Add(cap).UnixMilli()
	schedAll := map[uint64]struct{}{}
	var schedMu sync.Mutex
	type wres struct {
		lines  []wline
		crashAt int
		stderr string
		err    error
		hung   bool
	}
	results := make([]*wres, nw)
	var wg sync.WaitGroup
	runWorker := func(idx int, extra []string, gmp int) *wres {
		out := filepath.Join(scratch, fmt.Sprintf("w%d-%d.jsonl", idx, time.Now().UnixNano()))
		a := append([]string{"worker", "-prop", spec.ID, "-tier", *tier, "-seed", fmt.Sprint(seed), "-out", out}, extra...)
		cmd := exec.Command(self(), a...)
		var eb bytes.Buffer
		cmd.Stderr = &eb
		cmd.Stdout = &eb
		// workers keep their scratch under the driver's: whatever a crashed or killed worker leaves goes with it
		cmd.Env = append(os.Environ(), fmt.Sprintf("GOMAXPROCS=%d", gmp), "GOTRACEBACK=all", "TMPDIR="+scratch)
		r := &wres{crashAt: -1}
		// watchdog: a worker stops starting runs at the deadline, and no single run takes minutes; one
		// that is still alive long after is hung (a livelock in the simulated code or in the harness).
		// It is killed and the run it was in is handled like a crashed one - never as a violation by itself.
		limit := 4 * time.Minute
		for _, x := range extra {
			if x == "-deadline" {
				limit = time.Until(time.UnixMilli(deadline)) + 5*time.Minute
			}
		}
		if err := cmd.Start(); err != nil {
			r.err = err
			return r
		}
		done := make(chan error, 1)
		go func() { done <- cmd.Wait() }()
		select {
		case r.err = <-done:
		case <-time.After(limit):
			_ = cmd.Process.Kill()
			<-done
			r.err = fmt.Errorf("watchdog: worker killed after %s without finishing", limit.Round(time.Second))
			r.hung = true
			eb.WriteString("\nWATCHDOG: worker killed after " + limit.Round(time.Second).String() + "\n")
		}
		r.stderr = eb.String()
		f, err := os.Open(out)
		if err == nil {
			sc := bufio.NewScanner(f)
			sc.Buffer(make([]byte, 1<<20), 1<<28)
			lastStart := -1
			for sc.Scan() {
				var l wline
				if json.Unmarshal(sc.Bytes(), &l) != nil {
					continue
				}
				if l.T == "start" {
					lastStart = l.Run
					continue
				}
				if l.T == "res" {
					lastStart = -1
				}
				r.lines = append(r.lines, l)
			}
			f.Close()
			os.Remove(out)
			if sb, err := os.ReadFile(out + ".sched"); err == nil {
				schedMu.Lock()
				for i := 0; i+8 <= len(sb); i += 8 {
					var h uint64
					for k := 0; k < 8; k++ {
						h |= uint64(sb[i+k]) << (8 * k)
					}
					schedAll[h] = struct{}{}
				}
				schedMu.Unlock()
				os.Remove(out + ".sched")
			}
			if r.err != nil {
				r.crashAt = lastStart
			}
		}
		return r
	}
	var crashes []struct {
		run    int
		stderr string
	}
	var cmu sync.Mutex
	for i := 0; i < nw; i++ {
		wg.Add(1)
		go func(i int) {
			defer wg.Done()
			from := i
			agg := &wres{crashAt: -1}
			for {
				r := runWorker(i, []string{"-from", fmt.Sprint(from), "-stride", fmt.Sprint(nw), "-total", fmt.Sprint(total), "-deadline", fmt.Sprint(deadline)}, 1)
				agg.lines = append(agg.lines, r.lines...)
				if r.err == nil {
					break
				}
				if r.hung {
					// not re-run (it would hang again): the check cannot decide, loudly
					agg.err = fmt.Errorf("watchdog: run %d did not finish, its worker was killed (%v)", r.crashAt, r.err)
					break
				}
				if r.crashAt < 0 {
					agg.err = fmt.Errorf("worker %d failed outside a run: %v\n%s", i, r.err, tail(r.stderr, 4000))
					break
				}
				cmu.Lock()
				crashes = append(crashes, struct {
					run    int
					stderr string
				}{r.crashAt, r.stderr})
				n := len(crashes)
				cmu.Unlock()
				if n > 20 {
					break
				}
				from = r.crashAt + nw
				if from >= total {
					break
				}
			}
			results[i] = agg
		}(i)
	}
	wg.Wait()

	undecided := []string{}
	viols := map[string]*foundViol{}
	keys := map[string]bool{}
	hashes := map[int]string{}
	sum := &wsum{Faults: map[string]int{}, Probes: map[string]int{}}
	var samples []interface{}
	evals := 0
	for _, r := range results {
		if r.err != nil {
			undecided = append(undecided, r.err.Error())
		}
		for _, l := range r.lines {
			switch l.T {
			case "res":
				evals++
				hashes[l.Run] = l.H
				for _, k := range l.Keys {
					keys[k] = true
				}
				if l.Und != "" && len(l.Viol) == 0 {
					undecided = append(undecided, fmt.Sprintf("run %d: %s", l.Run, l.Und))
				}
				for _, v := range l.Viol {
					fv := viols[v.Signature]
					if fv == nil || len(l.Tape) < len(fv.tape) {
						c := 0
						if fv != nil {
							c = fv.count
						}
						viols[v.Signature] = &foundViol{v: v, run: l.Run, tape: l.Tape, avoid: l.Avoid, count: c}
						fv = viols[v.Signature]
					}
					fv.count++
				}
				if l.Samp != nil && len(samples) < 3 {
					samples = append(samples, l.Samp)
				}
			case "sum":
				sum.Runs += l.Sum.Runs
				for k, v := range l.Sum.Faults {
					sum.Faults[k] += v
				}
				for k, v := range l.Sum.Probes {
					sum.Probes[k] += v
				}
				sum.SimNs += l.Sum.SimNs
				sum.Inconcl += l.Sum.Inconcl
				sum.Exh += l.Sum.Exh
				sum.Trivial += l.Sum.Trivial
				sum.Draws += l.Sum.Draws
			}
		}
	}
	exploreWall := time.Since(start)

	// crashes: classify by re-running the run alone in a fresh process
	crashSigs := map[string]bool{}
	for _, c := range crashes {
		r := runWorker(100, []string{"-only", fmt.Sprint(c.run)}, 1)
		if r.hung {
			undecided = append(undecided, fmt.Sprintf("run %d crashed a worker and hangs when re-run alone (worker killed by the watchdog)", c.run))
			break
		}
		st := c.stderr
		if r.err != nil {
			st = r.stderr
		}
		fr := TopKvassFrame(panicSection(st))
		if r.err == nil {
			undecided = append(undecided, fmt.Sprintf("run %d crashed a worker once but not when re-run alone:\n%s", c.run, tail(c.stderr, 3000)))
			continue
		}
		if fr == "" {
			undecided = append(undecided, fmt.Sprintf("run %d crashes the worker outside kvass code:\n%s", c.run, tail(st, 3000)))
			continue
		}
		sig := spec.ID + "/crash:frame=" + fr
		if crashSigs[sig] {
			viols[sig].count++
			continue
		}
		crashSigs[sig] = true
		viols[sig] = &foundViol{v: Violation{Property: spec.ID, Clause: "crash", Signature: sig,
			Message: "process crashed (panic in a goroutine started by kvass):\n" + tail(panicSection(st), 3000)}, run: c.run, count: 1, avoid: AvoidFor(c.run)}
	}

	// determinism self-check: re-run a sample at another GOMAXPROCS
	var sample []int
	{
		var all []int
		for r := range hashes {
			all = append(all, r)
		}
		sort.Ints(all)
		want := 24
		if *tier == "thorough" {
			want = 64
		}
		if spec.SelfCheckRuns > 0 {
			want = spec.SelfCheckRuns
		}
		step := len(all)/want + 1
		for i := 0; i < len(all); i += step {
			sample = append(sample, all[i])
		}
		for _, fv := range viols {
			if fv.tape != nil && len(sample) < want+8 {
				sample = append(sample, fv.run)
			}
		}
	}
	mism := 0
	if len(sample) > 0 {
		var ss []string
		for _, r := range sample {
			ss = append(ss, fmt.Sprint(r))
		}
		r := runWorker(101, []string{"-only", strings.Join(ss, ","), "-hashes"}, 4)
		got := map[int]string{}
		for _, l := range r.lines {
			if l.T == "res" {
				got[l.Run] = l.H
			}
		}
		var mismNotes []string
		for _, i := range sample {
			if g, ok := got[i]; ok && g != hashes[i] {
				mism++
				mismNotes = append(mismNotes, fmt.Sprintf("determinism self-check: run %d gave log hash %s, then %s", i, hashes[i], g))
			}
		}
		// one diverging run in the sample is reported (here and in the evidence) but does not make the
		// verdict "undecided": nothing is claimed about that run beyond "no violation seen", and a
		// violation is only ever reported after its replay reproduced it. More than that is a
		// determinism problem of the harness and fails the check loudly.
		if mism > 1 && mism*8 > len(sample) {
			undecided = append(undecided, mismNotes...)
		} else {
			for _, n := range mismNotes {
				fmt.Println("NOTE: " + n + " (runs at GOMAXPROCS 1 and 4 diverged; not a verdict)")
			}
		}
		if r.err != nil && len(crashes) == 0 {
			undecided = append(undecided, "determinism self-check worker failed: "+tail(r.stderr, 2000))
		}
	}

	// triage
	var sigs []string
	for s := range viols {
		sigs = append(sigs, s)
	}
	sort.Strings(sigs)
	exit := 0
	shrinks := 0
	knownSeen := []string{}
	newViol := 0
	_ = os.MkdirAll(filepath.Join(VerifDir, "replays"), 0o755)
	for _, s := range sigs {
		fv := viols[s]
		kf := known.Open(spec.ID, s)
		if kf != nil {
			fmt.Printf("KNOWN-FINDING: property=%s %s — %s (seen in %d runs)\n", spec.ID, s, kf.Description, fv.count)
			knownSeen = append(knownSeen, s)
			if !*shrinkKnown {
				continue
			}
		}
		rf := &ReplayFile{Property: spec.ID, Engine: spec.Engine, Tier: *tier, Seed: uint64(seed), Run: fv.run,
			AvoidKnown: fv.avoid, Tape: fv.tape, Violation: &fv.v, Tree: *tree}
		path := filepath.Join(VerifDir, "replays", slug(s)+".json")
		if fv.tape == nil {
			// crash of the whole process: replay is by seed
			rf.Tape = nil
			_ = rf.Write(path)
		} else {
			tmp := filepath.Join(scratch, "shrink-in.json")
			_ = rf.Write(tmp)
			budget := 45 * time.Second
			if *tier == "thorough" {
				budget = 150 * time.Second
			}
			shrinks++
			if shrinks > 4 {
				budget = 8 * time.Second // many signatures: keep the check bounded
			}
			cmd := exec.Command(self(), "shrink", "-in", tmp, "-out", path, "-budget", budget.String())
			cmd.Env = append(os.Environ(), "GOMAXPROCS=1")
			ob, err := cmd.CombinedOutput()
			if err != nil {
				// could not shrink (e.g. crash while shrinking): keep the original
				_ = rf.Write(path)
				fmt.Printf("note: shrinking %s failed (%v): %s\n", s, err, tail(string(ob), 500))
			}
			// fresh-process strict replay must reproduce. A few checks hand part of a run to real
			// parallelism that no scheduler of ours controls (VictoriaMetrics' unmarshal worker
			// pool on multi-block payloads): such a violation is a data race and may need several
			// attempts; it is reported only if a fresh process reproduces it, with the attempt count.
			code, attempts := 0, 0
			for attempts < 6 {
				attempts++
				cmd = exec.Command(self(), "replay", "-file", path, "-quiet")
				cmd.Env = append(os.Environ(), "GOMAXPROCS=1")
				var err error
				ob, err = cmd.CombinedOutput()
				code = 0
				if ee, ok := err.(*exec.ExitError); ok {
					code = ee.ExitCode()
				}
				if code == 1 {
					break
				}
			}
			if code != 1 {
				undecided = append(undecided, fmt.Sprintf("violation %s did not reproduce from its replay file %s in %d fresh processes (exit %d): %s", s, path, attempts, code, tail(string(ob), 1500)))
				continue
			}
			if attempts > 1 {
				fmt.Printf("note: %s reproduced on replay attempt %d of 6 (part of this run executes under real, uncontrolled parallelism)\n", s, attempts)
			}
		}
		if kf == nil {
			newViol++
			exit = 1
			fmt.Printf("VIOLATION property=%s replay=%s\n", spec.ID, path)
			fmt.Printf("  signature: %s\n  seen in %d runs; first: %s\n", s, fv.count, firstLine(fv.v.Message))
		}
	}

	wall := time.Since(start).Seconds()
	if !*noEvidence {
		ev := &Evidence{PropertyID: spec.ID, Tier: *tier, Seed: seed, Level: "exploration", WallS: wall, Violations: newViol,
			Assumptions: spec.Assume}
		var klist []string
		for k := range keys {
			klist = append(klist, k)
		}
		sort.Strings(klist)
		if len(samples) == 0 {
			samples = append(samples, "no run produced a sample")
		}
		rph := 0.0
		if exploreWall.Seconds() > 0 {
			rph = float64(evals) / exploreWall.Seconds() * 3600
		}
		cov := map[string]interface{}{
			"evaluations":         evals,
			"distinct_nontrivial": len(klist),
			"rule":                spec.Rule,
			"samples":             samples,
			"trivial_runs":        sum.Trivial,
			"runs_per_hour":       int64(rph),
			"seeds":               fmt.Sprintf("run i uses PRNG seed mix(VERIF_SEED=%d, %q, i), i in [0,%d)", seed, spec.ID, total),
			"sim_time_s":          float64(sum.SimNs) / 1e9,
			"fault_counts":        sum.Faults,
			"probes":              sum.Probes,
			"choices_drawn":       sum.Draws,
			"components":          map[string]interface{}{"real": spec.Real, "stub": spec.Stub},
			"determinism_selfcheck": map[string]int{"runs": len(sample), "mismatches": mism},
			"known_findings_seen": knownSeen,
			"inconclusive":        sum.Inconcl,
			"exhaustive_subsweeps": sum.Exh,
			"exhaustive":          false,
			"worker_crashes":      len(crashes),
			"distinct_schedules":  len(schedAll),
			"schedule_measure":    fmt.Sprintf("number of distinct value sequences of the scheduling / fault-placement draws (tape labels %v) over all runs", spec.SchedLabels),
			"runs_planned":        total,
		}
		if len(klist) > 0 {
			n := len(klist)
			if n > 5 {
				n = 5
			}
			cov["distinct_key_examples"] = klist[:n]
		}
		if *rewrite != "" {
			if b, err := os.ReadFile(*rewrite); err == nil {
				var rr map[string]interface{}
				if json.Unmarshal(b, &rr) == nil {
					cov["map_ranges_rewritten"] = rr["rewritten"]
					cov["uncontrolled_map_ranges"] = rr["skipped"]
					cov["network_seams_inserted"] = rr["network_seams"]
					cov["command_files_compiled_as_package"] = rr["cmd_files"]
				}
			}
		}
		ev.Coverage = cov
		b, _ := json.MarshalIndent(ev, "", " ")
		_ = os.MkdirAll(filepath.Join(VerifDir, "evidence"), 0o755)
		if err := os.WriteFile(filepath.Join(VerifDir, "evidence", spec.ID+".json"), b, 0o644); err != nil {
			undecided = append(undecided, "cannot write evidence: "+err.Error())
		}
	}
	fmt.Printf("%s: %d runs, %d distinct non-trivial cases, %d known, %d new violations, %.1fs\n", spec.ID, evals, len(keys), len(knownSeen), newViol, wall)
	if exit == 1 {
		return 1
	}
	if len(undecided) > 0 {
		for i, u := range undecided {
			if i > 5 {
				break
			}
			fmt.Println("UNDECIDED:", u)
		}
		return 2
	}
	if evals == 0 {
		fmt.Println("UNDECIDED: no run completed")
		return 2
	}
	return 0
}

var slugRe = regexp.MustCompile(`[^A-Za-z0-9_.=-]+`)

func slug(s string) string {
	s = slugRe.ReplaceAllString(s, "_")
	if len(s) > 120 {
		s = s[:120]
	}
	return s
}

func tail(s string, n int) string {
	if len(s) > n {
		return "…" + s[len(s)-n:]
	}
	return s
}

func firstLine(s string) string {
	if i := strings.IndexByte(s, '\n'); i >= 0 {
		return s[:i]
	}
	return s
}

// panicSection returns stderr from the first "panic:" or "fatal error:" on.
func panicSection(s string) string {
	i := strings.Index(s, "panic: ")
	if j := strings.Index(s, "fatal error: "); j >= 0 && (i < 0 || j < i) {
		i = j
	}
	if i < 0 {
		return s
	}
	s = s[i:]
	// only the first goroutine's stack (the panicking one)
	if j := strings.Index(s, "\n\ngoroutine "); j >= 0 {
		if k := strings.Index(s[j+2:], "\n\n"); k >= 0 {
			return s[:j+2+k]
		}
	}
	return s
}

// ---------------------------------------------------------------- replay / shrink

func replayMain(args []string, t *testing.T) int {
	fs := flag.NewFlagSet("replay", flag.ContinueOnError)
	file := fs.String("file", "", "")
	quiet := fs.Bool("quiet", false, "")
	if err := fs.Parse(args); err != nil {
		return 2
	}
	rf, err := ReadReplay(*file)
	if err != nil {
		fmt.Fprintln(os.Stderr, err)
		return 2
	}
	spec, err := Lookup(rf.Property)
	if err != nil {
		fmt.Fprintln(os.Stderr, err)
		return 2
	}
	known, _ := LoadKnown(filepath.Join(VerifDir, "known_findings.json"))
	scratch, _ := os.MkdirTemp("", "kvsim-r-")
	defer os.RemoveAll(scratch)
	var res *RunResult
	var env *Env
	if rf.Tape == nil {
		// process-crash replay: by seed
		res, _ = RunSeeded(spec, rf.Tier, rf.Seed, rf.Run, t, known, scratch, !*quiet)
	} else {
		res, _, env = RunReplay(spec, rf, true, t, known, scratch, !*quiet)
	}
	if !*quiet && env != nil {
		for _, l := range env.VerboseLog() {
			fmt.Println(l)
		}
	}
	want := ""
	if rf.Violation != nil {
		want = rf.Violation.Signature
	}
	for _, v := range res.Violations {
		if want == "" || v.Signature == want {
			fmt.Printf("VIOLATION property=%s replay=%s\n  signature: %s\n  %s\n", rf.Property, *file, v.Signature, v.Message)
			if res.Undecided != "" {
				fmt.Println("  (the run also ended with:", firstLine(res.Undecided)+")")
			}
			return 1
		}
	}
	if rf.Tape != nil && len(res.Violations) == 0 && strings.Contains(res.Undecided, "replay diverged") && strings.Contains(res.Undecided, "tape exhausted") {
		// the run went on past the point where the recorded one ended with its violation (the tree no
		// longer has the defect): finish it with the simplest choices and say what it shows
		res2, _, _ := RunReplay(spec, rf, false, t, known, scratch, false)
		if len(res2.Violations) == 0 && res2.Undecided == "" {
			fmt.Println("replay: the recorded violation does not occur on this tree (the run went on past the recorded choices and ended without a violation)")
			return 0
		}
		for _, v := range res2.Violations {
			if want == "" || v.Signature == want {
				fmt.Printf("VIOLATION property=%s replay=%s\n  signature: %s\n  %s\n", rf.Property, *file, v.Signature, v.Message)
				return 1
			}
		}
	}
	if res.Undecided != "" {
		fmt.Println("UNDECIDED:", res.Undecided)
		return 2
	}
	if len(res.Violations) > 0 {
		fmt.Printf("replay produced other violations than %s:\n", want)
		for _, v := range res.Violations {
			fmt.Printf("  %s: %s\n", v.Signature, firstLine(v.Message))
		}
		return 2
	}
	fmt.Println("replay: property held (no violation)")
	return 0
}

func shrinkMain(args []string, t *testing.T) int {
	fs := flag.NewFlagSet("shrink", flag.ContinueOnError)
	in := fs.String("in", "", "")
	out := fs.String("out", "", "")
	budget := fs.Duration("budget", 30*time.Second, "")
	if err := fs.Parse(args); err != nil {
		return 2
	}
	rf, err := ReadReplay(*in)
	if err != nil {
		fmt.Fprintln(os.Stderr, err)
		return 2
	}
	spec, err := Lookup(rf.Property)
	if err != nil {
		fmt.Fprintln(os.Stderr, err)
		return 2
	}
	known, _ := LoadKnown(filepath.Join(VerifDir, "known_findings.json"))
	scratch, _ := os.MkdirTemp("", "kvsim-s-")
	defer os.RemoveAll(scratch)
	sig := rf.Violation.Signature
	min, ok := Shrink(spec, rf, sig, *budget, t, known, scratch)
	if !ok {
		fmt.Println("shrink: original does not fail under lenient replay")
		return 2
	}
	// final verbose run to attach scenario, log and the exact violation
	res, tp, env := RunReplay(spec, min, false, t, known, scratch, true)
	v := HasSig(res, sig)
	if v == nil {
		fmt.Println("shrink: minimised tape lost the violation")
		return 2
	}
	min.Tape = tp.Rec[:trimZeros(tp.Rec)]
	// strict replay needs the full tape including zero draws
	min.Tape = tp.Rec
	min.Violation = v
	min.LogHash = res.LogHash
	min.Scenario = res.Sample
	lg := env.VerboseLog()
	if len(lg) > 400 {
		lg = append(append([]string{}, lg[:100]...), append([]string{"…"}, lg[len(lg)-300:]...)...)
	}
	min.Log = lg
	if err := min.Write(*out); err != nil {
		fmt.Fprintln(os.Stderr, err)
		return 2
	}
	fmt.Printf("shrink: %d -> %d draws (%d non-zero), %d candidates\n", min.Shrunk.FromDraws, len(min.Tape), min.Shrunk.NonZero, min.Shrunk.Candidates)
	return 0
}

var commands = map[string]func(args []string) int{}

// RegisterCommand adds an engine-specific sub-command (e.g. a child-process mode).
func RegisterCommand(name string, f func(args []string) int) { commands[name] = f }

// Self returns the path of the running sim binary.
func Self() string { return self() }

// Main dispatches the sim binary's sub-commands.
func Main(args []string, t *testing.T) int {
	if len(args) == 0 {
		fmt.Println("usage: simbin worker|check|replay|shrink|list …")
		return 2
	}
	switch args[0] {
	case "worker":
		return workerMain(args[1:], t)
	case "check":
		return checkMain(args[1:], t)
	case "replay":
		return replayMain(args[1:], t)
	case "shrink":
		return shrinkMain(args[1:], t)
	case "detcheck":
		// determinism campaign: N seeds x 3 executions in separate processes at GOMAXPROCS 1, 4, 16
		fs := flag.NewFlagSet("detcheck", flag.ContinueOnError)
		prop := fs.String("prop", "", "")
		tier := fs.String("tier", "quick", "")
		seed := fs.Uint64("seed", 1, "")
		n := fs.Int("runs", 40, "")
		from := fs.Int("from", 0, "")
		if fs.Parse(args[1:]) != nil {
			return 2
		}
		scratch, _ := os.MkdirTemp("", "kvsim-det-")
		defer os.RemoveAll(scratch)
		var only []string
		for i := 0; i < *n; i++ {
			only = append(only, fmt.Sprint(*from+i))
		}
		var res []map[int]string
		for k, g := range []int{1, 4, 16} {
			out := filepath.Join(scratch, fmt.Sprintf("d%d.jsonl", k))
			cmd := exec.Command(self(), "worker", "-prop", *prop, "-tier", *tier, "-seed", fmt.Sprint(*seed), "-only", strings.Join(only, ","), "-hashes", "-out", out)
			cmd.Env = append(os.Environ(), fmt.Sprintf("GOMAXPROCS=%d", g))
			if ob, err := cmd.CombinedOutput(); err != nil {
				fmt.Printf("detcheck %s: worker at GOMAXPROCS=%d failed: %v %s\n", *prop, g, err, tail(string(ob), 800))
				return 2
			}
			m := map[int]string{}
			f, _ := os.Open(out)
			sc := bufio.NewScanner(f)
			sc.Buffer(make([]byte, 1<<20), 1<<26)
			for sc.Scan() {
				var l wline
				if json.Unmarshal(sc.Bytes(), &l) == nil && l.T == "res" {
					m[l.Run] = fmt.Sprintf("%s/%d", l.H, l.Ev)
				}
			}
			f.Close()
			res = append(res, m)
		}
		bad := 0
		for r, h := range res[0] {
			if res[1][r] != h || res[2][r] != h {
				bad++
				fmt.Printf("detcheck %s: run %d differs: %s | %s | %s\n", *prop, r, h, res[1][r], res[2][r])
			}
		}
		fmt.Printf("detcheck %s: %d runs x 3 executions (GOMAXPROCS 1,4,16): %d mismatches\n", *prop, len(res[0]), bad)
		if bad > 0 {
			return 1
		}
		return 0
	case "show":
		fs := flag.NewFlagSet("show", flag.ContinueOnError)
		prop := fs.String("prop", "", "")
		tier := fs.String("tier", "quick", "")
		seed := fs.Uint64("seed", 1, "")
		run := fs.Int("run", 0, "")
		if fs.Parse(args[1:]) != nil {
			return 2
		}
		spec, err := Lookup(*prop)
		if err != nil {
			fmt.Println(err)
			return 2
		}
		known, _ := LoadKnown(filepath.Join(VerifDir, "known_findings.json"))
		scratch, _ := os.MkdirTemp("", "kvsim-show-")
		defer os.RemoveAll(scratch)
		tp := NewTape(Mix(*seed, spec.ID, *run))
		e := NewEnv(spec.ID, *tier, *run, t)
		e.AvoidKnown = AvoidFor(*run)
		e.Known = known
		e.Scratch = scratch
		e.Verbose = true
		res := Execute(spec, tp, e)
		for _, l := range e.VerboseLog() {
			fmt.Println(l)
		}
		b, _ := json.MarshalIndent(res, "", " ")
		fmt.Println(string(b))
		fmt.Println("draws:", len(tp.Rec))
		return 0
	case "list":
		var ids []string
		for id := range registry {
			ids = append(ids, id)
		}
		sort.Strings(ids)
		for _, id := range ids {
			fmt.Println(id, registry[id].Engine)
		}
		return 0
	}
	if f := commands[args[0]]; f != nil {
		return f(args[1:])
	}
	fmt.Println("unknown command", args[0])
	return 2
}
