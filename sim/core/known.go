package core

import (
	"encoding/json"
	"os"
)

// KnownFinding is one committed entry of /verif/known_findings.json. The file is
// never written at run time.
type KnownFinding struct {
	Property    string `json:"property"`
	Signature   string `json:"signature"`
	Status      string `json:"status"` // open | fixed
	Commit      string `json:"commit,omitempty"`
	Description string `json:"description"`
	Replay      string `json:"replay,omitempty"`
	// Trigger names the generator feature that provokes it; runs with
	// Env.AvoidKnown switch that feature off.
	Trigger string `json:"trigger,omitempty"`
}

type KnownFindings struct {
	Findings []KnownFinding `json:"findings"`
}

func LoadKnown(path string) (*KnownFindings, error) {
	k := &KnownFindings{}
	b, err := os.ReadFile(path)
	if err != nil {
		if os.IsNotExist(err) {
			return k, nil
		}
		return nil, err
	}
	if err := json.Unmarshal(b, k); err != nil {
		return nil, err
	}
	return k, nil
}

// Open returns the open entry matching (property, signature), if any.
func (k *KnownFindings) Open(prop, sig string) *KnownFinding {
	if k == nil {
		return nil
	}
	for i := range k.Findings {
		f := &k.Findings[i]
		if f.Property == prop && f.Signature == sig && f.Status == "open" {
			return f
		}
	}
	return nil
}

// OpenTrigger reports whether an open finding of this property names the trigger.
func (k *KnownFindings) OpenTrigger(prop, trigger string) bool {
	if k == nil {
		return false
	}
	for _, f := range k.Findings {
		if f.Property == prop && f.Status == "open" && f.Trigger == trigger {
			return true
		}
	}
	return false
}
