package core

import (
	"encoding/json"
	"fmt"
	"os"
	"runtime/debug"
	"strings"
	"testing"
)

// ReplayFile is the replay format: everything needed to re-execute one run.
type ReplayFile struct {
	Property  string      `json:"property"`
	Engine    string      `json:"engine"`
	Tier      string      `json:"tier"`
	Seed      uint64      `json:"seed"`
	Run       int         `json:"run"`
	AvoidKnown bool       `json:"avoid_known"`
	Tape      []Draw      `json:"tape"`
	Violation *Violation  `json:"violation,omitempty"`
	LogHash   string      `json:"log_hash,omitempty"`
	Scenario  interface{} `json:"scenario,omitempty"`
	Log       []string    `json:"log,omitempty"`
	Tree      string      `json:"kvass_tree,omitempty"`
	Shrunk    *ShrinkInfo `json:"shrunk,omitempty"`
}

type ShrinkInfo struct {
	FromDraws  int `json:"from_draws"`
	ToDraws    int `json:"to_draws"`
	Candidates int `json:"candidates"`
	NonZero    int `json:"nonzero_draws"`
}

func ReadReplay(path string) (*ReplayFile, error) {
	b, err := os.ReadFile(path)
	if err != nil {
		return nil, err
	}
	r := &ReplayFile{}
	if err := json.Unmarshal(b, r); err != nil {
		return nil, err
	}
	return r, nil
}

func (r *ReplayFile) Write(path string) error {
	b, err := json.MarshalIndent(r, "", " ")
	if err != nil {
		return err
	}
	return os.WriteFile(path, b, 0o644)
}

// AvoidFor says whether run i of a check runs with known-finding triggers off.
func AvoidFor(run int) bool { return run%3 == 2 }

// Execute runs spec once under the tape, converting a panic on the calling
// goroutine into a crash violation (when the stack is inside kvass) or into an
// undecided result (harness trouble).
func Execute(spec *Spec, tp *Tape, e *Env) (res *RunResult) {
	tp.Limit = spec.TapeCap
	if tp.Limit == 0 {
		tp.Limit = 200000
	}
	func() {
		defer func() {
			if r := recover(); r != nil {
				st := string(debug.Stack())
				if fr := TopKvassFrame(st); fr != "" {
					e.Violate("crash", "frame="+fr, "panic: %v\n%s", r, trimStack(st))
				} else {
					e.Undecided("harness panic: %v\n%s", r, trimStack(st))
				}
			}
		}()
		if spec.Extra != nil && spec.ExtraEvery > 0 && e.RunIndex%spec.ExtraEvery == spec.ExtraEvery-1 {
			e.Probe("extra_engine_runs")
			spec.Extra(tp, e)
		} else {
			spec.Run(tp, e)
		}
	}()
	if tp.Overflow {
		e.Undecided("tape overflow (> %d draws)", tp.Limit)
	}
	if tp.Diverged != "" {
		e.Undecided("replay diverged: %s", tp.Diverged)
	}
	return e.Finish()
}

func trimStack(s string) string {
	lines := strings.Split(s, "\n")
	if len(lines) > 60 {
		lines = lines[:60]
	}
	return strings.Join(lines, "\n")
}

// TopKvassFrame returns the first function of tkestack.io/kvass/pkg on a stack
// (skipping the overlay's verifhook), or "".
func TopKvassFrame(stack string) string {
	for _, ln := range strings.Split(stack, "\n") {
		ln = strings.TrimSpace(ln)
		if strings.HasPrefix(ln, "tkestack.io/kvass/pkg/") && !strings.Contains(ln, "/verifhook.") {
			if i := strings.LastIndex(ln, "("); i > 0 {
				ln = ln[:i]
			}
			return strings.TrimPrefix(ln, "tkestack.io/kvass/pkg/")
		}
	}
	return ""
}

// RunSeeded runs run index i of a check in generation mode.
func RunSeeded(spec *Spec, tier string, seed uint64, run int, t *testing.T, known *KnownFindings, scratch string, verbose bool) (*RunResult, *Tape) {
	tp := NewTape(Mix(seed, spec.ID, run))
	e := NewEnv(spec.ID, tier, run, t)
	e.AvoidKnown = AvoidFor(run)
	e.Known = known
	e.Scratch = scratch
	e.Verbose = verbose
	return Execute(spec, tp, e), tp
}

// RunReplay re-executes a replay file.
func RunReplay(spec *Spec, rf *ReplayFile, strict bool, t *testing.T, known *KnownFindings, scratch string, verbose bool) (*RunResult, *Tape, *Env) {
	tp := ReplayTape(rf.Tape, strict)
	e := NewEnv(spec.ID, rf.Tier, rf.Run, t)
	e.AvoidKnown = rf.AvoidKnown
	e.Known = known
	e.Scratch = scratch
	e.Verbose = verbose
	return Execute(spec, tp, e), tp, e
}

func HasSig(res *RunResult, sig string) *Violation {
	for i := range res.Violations {
		if res.Violations[i].Signature == sig {
			return &res.Violations[i]
		}
	}
	return nil
}

var registry = map[string]*Spec{}

func Register(s *Spec) {
	if registry[s.ID] != nil {
		panic("duplicate spec " + s.ID)
	}
	registry[s.ID] = s
}

func Lookup(id string) (*Spec, error) {
	s := registry[id]
	if s == nil {
		return nil, fmt.Errorf("no check registered for %s", id)
	}
	return s, nil
}

func AllSpecs() map[string]*Spec { return registry }
