package core

import (
	"testing"
	"time"
)

// Shrink minimises the tape of rf while the run keeps failing with the same
// signature. It runs in-process; candidates are lenient replays, and after every
// accepted candidate the tape is replaced by what that run actually recorded.
func Shrink(spec *Spec, rf *ReplayFile, sig string, budget time.Duration, t *testing.T, known *KnownFindings, scratch string) (*ReplayFile, bool) {
	deadline := time.Now().Add(budget)
	cands := 0
	try := func(feed []Draw) ([]Draw, bool) {
		cands++
		c := *rf
		c.Tape = feed
		res, tp, _ := RunReplay(spec, &c, false, t, known, scratch, false)
		if HasSig(res, sig) != nil {
			return append([]Draw(nil), tp.Rec...), true
		}
		return nil, false
	}
	cur, ok := try(rf.Tape)
	if !ok {
		return rf, false
	}
	from := len(rf.Tape)
	timeUp := func() bool { return time.Now().After(deadline) }
	improved := true
	for improved && !timeUp() {
		improved = false
		// 1. cut the tail (everything after becomes "first choice")
		lo, hi := 0, len(cur)
		for lo < hi && !timeUp() {
			mid := (lo + hi) / 2
			if nt, ok := try(cur[:mid]); ok && len(nt) <= len(cur) {
				if trimZeros(nt) < trimZeros(cur) {
					improved = true
				}
				cur = nt
				if mid < hi {
					hi = mid
				}
				if hi > len(cur) {
					hi = len(cur)
				}
			} else {
				lo = mid + 1
			}
		}
		// 2. delete blocks
		for _, bs := range []int{32, 8, 4, 2, 1} {
			for i := 0; i+bs <= len(cur) && !timeUp(); {
				cand := append(append([]Draw(nil), cur[:i]...), cur[i+bs:]...)
				if nt, ok := try(cand); ok && weight(nt) < weight(cur) {
					cur = nt
					improved = true
				} else {
					i += bs
				}
			}
		}
		// 3. zero, then reduce values
		for i := 0; i < len(cur) && !timeUp(); i++ {
			if cur[i].V == 0 {
				continue
			}
			cand := append([]Draw(nil), cur...)
			cand[i].V = 0
			if nt, ok := try(cand); ok && weight(nt) < weight(cur) {
				cur = nt
				improved = true
				continue
			}
			for v := cur[i].V / 2; v > 0 && i < len(cur) && v < cur[i].V && !timeUp(); v /= 2 {
				cand := append([]Draw(nil), cur...)
				cand[i].V = v
				if nt, ok := try(cand); ok && weight(nt) < weight(cur) {
					cur = nt
					improved = true
				} else {
					break
				}
			}
			if i < len(cur) && cur[i].V > 1 && !timeUp() {
				cand := append([]Draw(nil), cur...)
				cand[i].V = cur[i].V - 1
				if nt, ok := try(cand); ok && weight(nt) < weight(cur) {
					cur = nt
					improved = true
				}
			}
		}
	}
	out := *rf
	out.Tape = cur[:trimZeros(cur)]
	nz := 0
	for _, d := range out.Tape {
		if d.V != 0 {
			nz++
		}
	}
	out.Shrunk = &ShrinkInfo{FromDraws: from, ToDraws: len(out.Tape), Candidates: cands, NonZero: nz}
	return &out, true
}

// trimZeros returns the length of the tape without its all-zero tail.
func trimZeros(t []Draw) int {
	n := len(t)
	for n > 0 && t[n-1].V == 0 {
		n--
	}
	return n
}

// weight orders tapes: fewer non-zero draws, then shorter, then smaller values.
func weight(t []Draw) uint64 {
	var nz, sum uint64
	for _, d := range t {
		if d.V != 0 {
			nz++
			sum += d.V
		}
	}
	return nz<<40 + uint64(trimZeros(t))<<20 + min64(sum, 1<<20-1)
}

func min64(a, b uint64) uint64 {
	if a < b {
		return a
	}
	return b
}
