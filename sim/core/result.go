package core

import (
	"crypto/sha256"
	"encoding/hex"
	"fmt"
	"hash"
	"sort"
	"strings"
	"testing"
	"time"
)

// Violation is what an oracle reports.
type Violation struct {
	Property  string `json:"property"`
	Clause    string `json:"clause"`
	Signature string `json:"signature"`
	Message   string `json:"message"`
	Event     int    `json:"event"`
}

// Env is handed to a property's run function.
type Env struct {
	Property string
	Tier     string // quick | thorough
	RunIndex int
	T        *testing.T // for synctest bubbles
	Scratch  string     // per-process scratch dir (outside /repo and /verif)
	Verbose  bool
	// AvoidKnown is set on a fixed share of runs: generators switch off the
	// triggers of open known findings so that they cannot shadow other defects.
	AvoidKnown bool
	Known      *KnownFindings

	res  *RunResult
	h    hash.Hash
	nlog int
	vlog []string
}

// RunResult is what one run produced.
type RunResult struct {
	Violations []Violation    `json:"violations,omitempty"`
	Keys       []string       `json:"keys,omitempty"` // distinct-coverage keys of non-trivial cases
	Faults     map[string]int `json:"faults,omitempty"`
	Probes     map[string]int `json:"probes,omitempty"`
	SimTime    time.Duration  `json:"sim_time,omitempty"`
	Sample     interface{}    `json:"sample,omitempty"`
	LogHash    string         `json:"log_hash"`
	Events     int            `json:"events"`
	Undecided  string         `json:"undecided,omitempty"` // harness trouble: exit 2, never a violation
	Inconcl    int            `json:"inconclusive,omitempty"`
	Exhaustive int            `json:"exhaustive_sweeps,omitempty"`
}

func NewEnv(prop, tier string, run int, t *testing.T) *Env {
	return &Env{Property: prop, Tier: tier, RunIndex: run, T: t,
		res: &RunResult{Faults: map[string]int{}, Probes: map[string]int{}}, h: sha256.New()}
}

func (e *Env) Thorough() bool { return e.Tier == "thorough" }

// Logf appends to the event log. It never draws and never reads a clock.
func (e *Env) Logf(format string, a ...interface{}) {
	s := fmt.Sprintf(format, a...)
	e.nlog++
	_, _ = e.h.Write([]byte(s))
	_, _ = e.h.Write([]byte{'\n'})
	if e.Verbose {
		e.vlog = append(e.vlog, s)
	}
}

func (e *Env) EventIndex() int { return e.nlog }
func (e *Env) VerboseLog() []string { return e.vlog }

func (e *Env) Violate(clause, signature, format string, a ...interface{}) {
	v := Violation{Property: e.Property, Clause: clause, Signature: e.Property + "/" + clause + ":" + signature,
		Message: fmt.Sprintf(format, a...), Event: e.nlog}
	if signature == "" {
		v.Signature = e.Property + "/" + clause
	}
	e.Logf("VIOLATION %s %s", v.Signature, v.Message)
	for _, o := range e.res.Violations {
		if o.Signature == v.Signature {
			return // one per signature per run
		}
	}
	e.res.Violations = append(e.res.Violations, v)
}

func (e *Env) Fault(kind string)         { e.res.Faults[kind]++ }
func (e *Env) Probe(name string)         { e.res.Probes[name]++ }
func (e *Env) ProbeN(name string, n int) { e.res.Probes[name] += n }
func (e *Env) Key(parts ...string) {
	e.res.Keys = append(e.res.Keys, strings.Join(parts, "|"))
}
func (e *Env) AddSim(d time.Duration)   { e.res.SimTime += d }
func (e *Env) SetSample(s interface{})  { e.res.Sample = s }
func (e *Env) Undecided(format string, a ...interface{}) {
	if e.res.Undecided == "" {
		e.res.Undecided = fmt.Sprintf(format, a...)
	}
}
func (e *Env) Inconclusive()      { e.res.Inconcl++ }
func (e *Env) ExhaustiveSweep()   { e.res.Exhaustive++ }
func (e *Env) Failed() bool       { return len(e.res.Violations) > 0 }

func (e *Env) Finish() *RunResult {
	e.res.LogHash = hex.EncodeToString(e.h.Sum(nil))[:16]
	e.res.Events = e.nlog
	sort.Strings(e.res.Keys)
	e.res.Keys = uniq(e.res.Keys)
	return e.res
}

func uniq(s []string) []string {
	out := s[:0]
	for i, x := range s {
		if i == 0 || x != s[i-1] {
			out = append(out, x)
		}
	}
	return out
}

// RunFunc executes one run of a property under the given tape.
type RunFunc func(t *Tape, e *Env)

// Spec describes a property check.
type Spec struct {
	ID        string
	Engine    string
	Run       RunFunc
	QuickRuns int
	ThorRuns  int
	// wall-clock caps for the exploration phase
	QuickCap time.Duration
	ThorCap  time.Duration
	Rule     string   // how cases are generated and what makes one non-trivial/distinct
	Real     []string // components running real code
	Stub     []string // components that are stubs
	Assume   []string
	TapeCap  int  // max draws per run
	Serial   bool // engine needs exclusive process (child processes etc.)
	Workers  int  // 0 = default
	MaxRSSMB int
	// Extra, when set, replaces Run on every ExtraEvery-th run (a second, more
	// expensive engine feeding the same oracles, e.g. closed-loop world runs)
	Extra      RunFunc
	ExtraEvery int
	ExtraNote  string
	// SchedLabels names the tape labels that are scheduling / fault-placement decisions
	// (which parked call or goroutine proceeds next, which operation comes next, ...).
	// The number of distinct value sequences of these draws is reported as
	// distinct_schedules in the evidence.
	SchedLabels []string
	// SelfCheckRuns overrides how many runs are repeated for the determinism self-check
	SelfCheckRuns int
}
