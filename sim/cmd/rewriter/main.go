// rewriter produces a `go build -overlay` file that replaces every map range
// in the non-test files of tkestack.io/kvass/pkg/... by an iteration over
// verifhook.Keys(site, m), so that map order is a replayable choice.
//
// usage: rewriter -repo /repo -out <scratchdir> -hook <verifhook.go.src>
// must run with cwd = the harness module (so that `go list` resolves kvass).
package main

import (
	"bytes"
	"encoding/json"
	"flag"
	"fmt"
	"go/ast"
	"go/importer"
	"go/parser"
	"go/token"
	"go/types"
	"io"
	"os"
	"os/exec"
	"path/filepath"
	"sort"
	"strings"
)

var yieldPkgs = map[string]bool{
	"tkestack.io/kvass/pkg/discovery": true,
	"tkestack.io/kvass/pkg/explore":   true,
	"tkestack.io/kvass/pkg/sidecar":   true,
}

type edit struct {
	off  int
	end  int // replace [off,end) by text
	text string
}

func main() {
	repo := flag.String("repo", "/repo", "kvass tree")
	out := flag.String("out", "", "scratch dir for rewritten files and overlay.json")
	hook := flag.String("hook", "", "verifhook source")
	gobin := flag.String("go", "go1.26.8", "go command")
	modfile := flag.String("modfile", "", "optional -modfile=... flag passed to go list")
	flag.Parse()
	if *out == "" || *hook == "" {
		fmt.Fprintln(os.Stderr, "need -out and -hook")
		os.Exit(2)
	}
	must(os.MkdirAll(*out, 0o755))

	// export data of everything kvass depends on
	listArgs := []string{"list"}
	if *modfile != "" {
		listArgs = append(listArgs, *modfile)
	}
	listArgs = append(listArgs, "-export", "-deps", "-f", "{{.ImportPath}}={{.Export}}={{.Dir}}", "tkestack.io/kvass/pkg/...")
	cmd := exec.Command(*gobin, listArgs...)
	cmd.Stderr = os.Stderr
	data, err := cmd.Output()
	if err != nil {
		fmt.Fprintln(os.Stderr, "go list failed:", err)
		os.Exit(2)
	}
	exports := map[string]string{}
	dirs := map[string]string{}
	for _, ln := range strings.Split(string(data), "\n") {
		p := strings.SplitN(ln, "=", 3)
		if len(p) == 3 {
			exports[p[0]] = p[1]
			if strings.HasPrefix(p[0], "tkestack.io/kvass/pkg/") {
				dirs[p[0]] = p[2]
			}
		}
	}
	fset := token.NewFileSet()
	imp := importer.ForCompiler(fset, "gc", func(path string) (io.ReadCloser, error) {
		f := exports[path]
		if f == "" {
			return nil, fmt.Errorf("no export data for %s", path)
		}
		return os.Open(f)
	})

	overlay := map[string]string{}
	report := struct {
		Rewritten int      `json:"rewritten"`
		Skipped   []string `json:"skipped"`
		Sites     []string `json:"sites"`
		Yields    []string `json:"yield_sites"`
		Seams     []string `json:"network_seams"`
		CmdFiles  []string `json:"cmd_files"`
	}{}
	pkgs := make([]string, 0, len(dirs))
	for p := range dirs {
		pkgs = append(pkgs, p)
	}
	sort.Strings(pkgs)
	n := 0
	for _, pkg := range pkgs {
		dir := dirs[pkg]
		ents, err := os.ReadDir(dir)
		must(err)
		var files []*ast.File
		var names []string
		for _, e := range ents {
			nm := e.Name()
			if !strings.HasSuffix(nm, ".go") || strings.HasSuffix(nm, "_test.go") {
				continue
			}
			f, err := parser.ParseFile(fset, filepath.Join(dir, nm), nil, parser.ParseComments)
			must(err)
			files = append(files, f)
			names = append(names, filepath.Join(dir, nm))
		}
		info := &types.Info{Types: map[ast.Expr]types.TypeAndValue{}}
		conf := types.Config{Importer: imp, Error: func(err error) {}}
		_, _ = conf.Check(pkg, fset, files, info)

		for fi, f := range files {
			src, err := os.ReadFile(names[fi])
			must(err)
			var edits []edit
			labels := map[ast.Stmt]*ast.LabeledStmt{}
			ast.Inspect(f, func(nd ast.Node) bool {
				if l, ok := nd.(*ast.LabeledStmt); ok {
					labels[l.Stmt] = l
				}
				return true
			})
			hasImport := false
			keepHTTP := false
			// cooperative yield before every x.Lock() statement in the packages
			// whose lock-granularity interleavings the simulator explores
			if yieldPkgs[pkg] {
				ast.Inspect(f, func(nd ast.Node) bool {
					es, ok := nd.(*ast.ExprStmt)
					if !ok {
						return true
					}
					call, ok := es.X.(*ast.CallExpr)
					if !ok || len(call.Args) != 0 {
						return true
					}
					sel, ok := call.Fun.(*ast.SelectorExpr)
					if !ok || sel.Sel.Name != "Lock" {
						return true
					}
					pos := fset.Position(es.Pos())
					site := fmt.Sprintf("%s:%d", strings.TrimPrefix(pos.Filename, *repo+"/"), pos.Line)
					o := fset.Position(es.Pos()).Offset
					edits = append(edits, edit{o, o, fmt.Sprintf("verifhook.Yield(%q); ", site)})
					report.Yields = append(report.Yields, site)
					hasImport = true
					return true
				})
			}
			// network seams: http.ListenAndServe -> verifhook.ListenAndServe (call or value form);
			// config_util.NewClientFromConfig(...) -> verifhook.WrapClient(config_util.NewClientFromConfig(...))
			ast.Inspect(f, func(nd ast.Node) bool {
				off := func(p token.Pos) int { return fset.Position(p).Offset }
				if sel, ok := nd.(*ast.SelectorExpr); ok {
					if x, ok := sel.X.(*ast.Ident); ok && x.Name == "http" && sel.Sel.Name == "ListenAndServe" {
						edits = append(edits, edit{off(sel.Pos()), off(sel.End()), "verifhook.ListenAndServe"})
						pos := fset.Position(sel.Pos())
						report.Seams = append(report.Seams, fmt.Sprintf("%s:%d http.ListenAndServe", strings.TrimPrefix(pos.Filename, *repo+"/"), pos.Line))
						hasImport = true
						keepHTTP = true
					}
				}
				if call, ok := nd.(*ast.CallExpr); ok {
					if sel, ok := call.Fun.(*ast.SelectorExpr); ok && sel.Sel.Name == "NewClientFromConfig" {
						edits = append(edits, edit{off(call.Pos()), off(call.Pos()), "verifhook.WrapClient("})
						edits = append(edits, edit{off(call.End()), off(call.End()), ")"})
						pos := fset.Position(call.Pos())
						report.Seams = append(report.Seams, fmt.Sprintf("%s:%d NewClientFromConfig", strings.TrimPrefix(pos.Filename, *repo+"/"), pos.Line))
						hasImport = true
					}
				}
				return true
			})
			ast.Inspect(f, func(nd ast.Node) bool {
				rs, ok := nd.(*ast.RangeStmt)
				if !ok {
					return true
				}
				tv, ok := info.Types[rs.X]
				if !ok || tv.Type == nil {
					return true
				}
				if _, isMap := tv.Type.Underlying().(*types.Map); !isMap {
					return true
				}
				pos := fset.Position(rs.Pos())
				site := fmt.Sprintf("%s:%d", strings.TrimPrefix(pos.Filename, *repo+"/"), pos.Line)
				if rs.Tok == token.ASSIGN {
					report.Skipped = append(report.Skipped, site+" (assign form)")
					return true
				}
				n++
				id := n
				mv := fmt.Sprintf("__vm%d", id)
				kv := fmt.Sprintf("__vk%d", id)
				okv := fmt.Sprintf("__vo%d", id)
				off := func(p token.Pos) int { return fset.Position(p).Offset }
				xText := string(src[off(rs.X.Pos()):off(rs.X.End())])
				keyName := ""
				if rs.Key != nil {
					if idn, ok := rs.Key.(*ast.Ident); ok && idn.Name != "_" {
						keyName = idn.Name
					}
				}
				valName := ""
				if rs.Value != nil {
					if idn, ok := rs.Value.(*ast.Ident); ok && idn.Name != "_" {
						valName = idn.Name
					}
				}
				k := keyName
				if k == "" {
					k = kv
				}
				// open a block before the (possibly labelled) statement
				start := rs.Pos()
				if l := labels[rs]; l != nil {
					start = l.Pos()
				}
				edits = append(edits, edit{off(start), off(start), fmt.Sprintf("{ %s := %s; ", mv, xText)})
				hdr := fmt.Sprintf("for _, %s := range verifhook.Keys(%q, %s) { ", k, site, mv)
				if valName != "" {
					hdr += fmt.Sprintf("%s, %s := %s[%s]; if !%s { continue }; ", valName, okv, mv, k, okv)
				} else {
					hdr += fmt.Sprintf("if _, %s := %s[%s]; !%s { continue }; ", okv, mv, k, okv)
				}
				edits = append(edits, edit{off(rs.For), off(rs.Body.Lbrace) + 1, hdr})
				edits = append(edits, edit{off(rs.End()), off(rs.End()), " }"})
				report.Sites = append(report.Sites, site)
				hasImport = true
				return true
			})
			if !hasImport {
				continue
			}
			// import: right after the package clause, same line
			pe := fset.Position(f.Name.End()).Offset
			edits = append(edits, edit{pe, pe, `; import verifhook "tkestack.io/kvass/pkg/verifhook"`})
			sort.SliceStable(edits, func(a, b int) bool {
				if edits[a].off != edits[b].off {
					return edits[a].off < edits[b].off
				}
				// zero-width inserts: block opener before header replace; closers
				// of inner statements before closers of outer ones is irrelevant (same text)
				return edits[a].end < edits[b].end
			})
			var buf bytes.Buffer
			if bytes.Contains(src, []byte("//go:build")) {
				fmt.Fprintf(os.Stderr, "%s has a build constraint; cannot raise its language version\n", names[fi])
				os.Exit(2)
			}
			// generics in verifhook.Keys need go1.18 in the calling file; this does not
			// change loop-variable semantics (that starts at go1.22)
			fmt.Fprintf(&buf, "//go:build go1.18\n\n//line %s:1\n", names[fi])
			cur := 0
			for _, e := range edits {
				if e.off < cur {
					fmt.Fprintf(os.Stderr, "overlapping edits in %s\n", names[fi])
					os.Exit(2)
				}
				buf.Write(src[cur:e.off])
				buf.WriteString(e.text)
				cur = e.end
			}
			buf.Write(src[cur:])
			if keepHTTP {
				buf.WriteString("\nvar _ = http.StatusOK\n")
			}
			// sanity: must parse
			if _, err := parser.ParseFile(token.NewFileSet(), names[fi], buf.Bytes(), 0); err != nil {
				fmt.Fprintf(os.Stderr, "rewritten %s does not parse: %v\n", names[fi], err)
				os.Exit(2)
			}
			rel := strings.ReplaceAll(strings.TrimPrefix(names[fi], *repo+"/"), "/", "__")
			dst := filepath.Join(*out, rel)
			must(os.WriteFile(dst, buf.Bytes(), 0o644))
			overlay[names[fi]] = dst
		}
	}
	// cmd/kvass as an importable package (tkestack.io/kvass/pkg/verifcmd): the files are taken as
	// they are, only the package clause changes, plus one file exporting the two commands' RunE
	cmdDir := filepath.Join(*repo, "cmd/kvass")
	cents, err := os.ReadDir(cmdDir)
	must(err)
	for _, e := range cents {
		nm := e.Name()
		if !strings.HasSuffix(nm, ".go") || strings.HasSuffix(nm, "_test.go") {
			continue
		}
		full := filepath.Join(cmdDir, nm)
		src, err := os.ReadFile(full)
		must(err)
		cf, err := parser.ParseFile(fset, full, src, parser.PackageClauseOnly)
		must(err)
		a, b := fset.Position(cf.Name.Pos()).Offset, fset.Position(cf.Name.End()).Offset
		var buf bytes.Buffer
		buf.Write(src[:a])
		buf.WriteString("verifcmd")
		rest := string(src[b:])
		// seams of the coordinator command: its listener, the life of what it starts, and the
		// one loop that has no way out
		used := false
		for _, sm := range [][2]string{
			{"svc.Run(cdCfg.webAddress)", "verifhook.ListenAndServe(cdCfg.webAddress, svc)"},
			{"context.Background()", "verifhook.ProcessContext()"},
			{"<-targetDiscovery.ActiveTargetsChan()", "verifhook.RecvOrExit(targetDiscovery.ActiveTargetsChan())"},
			{"if err := targetDiscovery.WaitInit(tCtx)", "verifhook.Stagger(); if err := targetDiscovery.WaitInit(tCtx)"},
		} {
			if nm == "coordinator.go" && strings.Contains(rest, sm[0]) {
				report.Seams = append(report.Seams, fmt.Sprintf("cmd/kvass/%s %s (x%d)", nm, sm[0], strings.Count(rest, sm[0])))
				rest = strings.ReplaceAll(rest, sm[0], sm[1])
				used = true
			}
		}
		if used {
			rest = `; import verifhook "tkestack.io/kvass/pkg/verifhook"` + rest
			if !strings.Contains(rest, "context.") {
				rest += "\nvar _ = context.TODO\n"
			}
		}
		buf.WriteString(rest)
		if used { // the generic hook needs go1.18 in the calling file (no loop-variable change below go1.22)
			nb := append([]byte("//go:build go1.18\n\n"), buf.Bytes()...)
			buf.Reset()
			buf.Write(nb)
		}
		dst := filepath.Join(*out, "cmd__"+nm)
		must(os.WriteFile(dst, buf.Bytes(), 0o644))
		overlay[filepath.Join(*repo, "pkg/verifcmd", nm)] = dst
		report.CmdFiles = append(report.CmdFiles, "cmd/kvass/"+nm)
	}
	exp := `package verifcmd

import "github.com/prometheus/client_golang/prometheus"

// every "process" has its own metrics registry, as every real process has
func freshProcess() { promRegistry = prometheus.NewRegistry() }

// RunSidecar runs the real "kvass sidecar" command body.
func RunSidecar(args []string) error { freshProcess(); return sidecarCmd.RunE(sidecarCmd, args) }

// RunCoordinator runs the real "kvass coordinator" command body.
func RunCoordinator(args []string) error { freshProcess(); return coordinatorCmd.RunE(coordinatorCmd, args) }
`
	expDst := filepath.Join(*out, "cmd__zz_verif_export.go")
	must(os.WriteFile(expDst, []byte(exp), 0o644))
	overlay[filepath.Join(*repo, "pkg/verifcmd/zz_verif_export.go")] = expDst
	report.Rewritten = len(report.Sites)
	hookDst := filepath.Join(*out, "verifhook.go")
	hb, err := os.ReadFile(*hook)
	must(err)
	must(os.WriteFile(hookDst, hb, 0o644))
	overlay[filepath.Join(*repo, "pkg/verifhook/verifhook.go")] = hookDst
	ob, _ := json.MarshalIndent(map[string]interface{}{"Replace": overlay}, "", " ")
	must(os.WriteFile(filepath.Join(*out, "overlay.json"), ob, 0o644))
	rb, _ := json.MarshalIndent(report, "", " ")
	must(os.WriteFile(filepath.Join(*out, "rewrite_report.json"), rb, 0o644))
	fmt.Printf("rewriter: %d map ranges rewritten, %d skipped\n", report.Rewritten, len(report.Skipped))
}

func must(err error) {
	if err != nil {
		fmt.Fprintln(os.Stderr, "rewriter:", err)
		os.Exit(2)
	}
}
