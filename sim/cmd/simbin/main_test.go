package main

import (
	"os"
	"testing"

	"kvassverif/core"
	_ "kvassverif/cycle"
	_ "kvassverif/disco"
	_ "kvassverif/k8seng"
	_ "kvassverif/node"
	_ "kvassverif/cmdworld"
	_ "kvassverif/world"
)

var simArgs []string

func TestMain(m *testing.M) {
	simArgs = os.Args[1:]
	os.Args = []string{os.Args[0], "-test.run=^TestSim$", "-test.timeout=0"}
	os.Exit(m.Run())
}

func TestSim(t *testing.T) {
	os.Exit(core.Main(simArgs, t))
}
