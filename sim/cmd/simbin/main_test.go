package main

import (
	"os"
	"testing"

	"kvassverif/core"
	_ "kvassverif/cycle"
	_ "kvassverif/disco"
	_ "kvassverif/k8seng"
	_ "kvassverif/node"
	_ "kvassverif/cmdworld"
	_ "kvassverif/world"
)

var simArgs []string

var simExit int

func TestMain(m *testing.M) {
	simArgs = os.Args[1:]
	os.Args = []string{os.Args[0], "-test.run=^TestSim$", "-test.timeout=0"}
	if d := os.Getenv("KVSIM_COVERDIR"); d != "" {
		// coverage experiment (a binary built with -cover): every process leaves its counters in d
		os.Args = append(os.Args, "-test.gocoverdir="+d)
	}
	code := m.Run()
	if simExit != 0 {
		code = simExit
	}
	os.Exit(code)
}

func TestSim(t *testing.T) {
	simExit = core.Main(simArgs, t)
	if os.Getenv("KVSIM_COVERDIR") == "" {
		os.Exit(simExit)
	}
}
