package sidecarsim

import (
	"context"
	"fmt"
	"net/http"
	"runtime/debug"
	"time"

	"tkestack.io/kvass/pkg/verifcmd"
	"tkestack.io/kvass/pkg/verifhook"
)

// CoordAddr is the address the simulated coordinator "listens" on.
const CoordAddr = ":9090"

// CoordOptions of one coordinator "process" (static shard type: the shard list is a file).
type CoordOptions struct {
	ConfigFile  string
	StaticFile  string
	MaxProcess  int64
	MaxHead     int64
	Interval    time.Duration
	InitTimeout time.Duration
	Concurrency int
	Targets     http.RoundTripper // what the explorer's probe clients talk to
}

// Coordinator is the real `kvass coordinator` command body running in its own goroutines.
// Starting is asynchronous: the command serves only after its first discovery round.
type Coordinator struct {
	Opt CoordOptions
	API http.Handler // what the command serves on --web.address, once it does
	Err string       // panic / error that ended the command

	cancel  context.CancelFunc
	stop    chan struct{}
	exited  chan struct{}
	stopped bool
}

var curCo *Coordinator

func coordListen(h http.Handler) error {
	mu.Lock()
	c := curCo
	if c == nil {
		mu.Unlock()
		return fmt.Errorf("sidecarsim: coordinator listen without a coordinator")
	}
	c.API = h
	mu.Unlock()
	<-c.stop
	return http.ErrServerClosed
}

// StartCoordinator launches the command body; it returns at once.
func StartCoordinator(opt CoordOptions) *Coordinator {
	hookOnce.Do(installHooks)
	if _, ok := http.DefaultTransport.(*Router); !ok {
		http.DefaultTransport = &Router{Next: http.DefaultTransport}
	}
	c := &Coordinator{Opt: opt, stop: make(chan struct{}), exited: make(chan struct{})}
	ctx, cancel := context.WithCancel(context.Background())
	c.cancel = cancel
	verifhook.ProcCtx.Store(&ctx)
	if opt.Targets != nil {
		tr := opt.Targets
		fn := func(cl *http.Client) { cl.Transport = tr }
		verifhook.ClientFn.Store(&fn)
	}
	mu.Lock()
	curCo = c
	mu.Unlock()
	args := []string{
		"--shard.type=static",
		"--shard.static-file=" + opt.StaticFile,
		"--shard.namespace=", "--shard.selector=", "--shard.port=8080",
		fmt.Sprintf("--shard.max-head-series=%d", opt.MaxHead),
		fmt.Sprintf("--shard.max-process-series=%d", opt.MaxProcess),
		"--shard.max-shard=999999", "--shard.min-shard=0", "--shard.max-idle-time=0s",
		"--shard.disable-alleviate=false", "--shard.delete-pvc=true",
		fmt.Sprintf("--explore.concurrence=%d", opt.Concurrency),
		"--scrape.disable-keep-alive=false", "--discovery.disable-keep-alive=false",
		"--web.address=" + CoordAddr,
		"--config.file=" + opt.ConfigFile,
		"--coordinator.interval=" + opt.Interval.String(),
		"--sd.init-timeout=" + opt.InitTimeout.String(),
		"--inject.kubernetes-url=", "--inject.kubernetes-proxy=", "--inject.kubernetes-sa-path=",
	}
	go func() {
		defer close(c.exited)
		defer func() {
			if r := recover(); r != nil {
				c.Err = fmt.Sprintf("panic: %v\n%s", r, debug.Stack())
			}
		}()
		if err := verifcmd.RunCoordinator(args); err != nil && err != http.ErrServerClosed && err != context.Canceled {
			c.Err = err.Error()
		}
	}()
	return c
}

// Ready: the command serves its API (every earlier step of its start path is done).
func (c *Coordinator) Ready() bool {
	mu.Lock()
	defer mu.Unlock()
	return c.API != nil
}

// Exited: the command body has returned (or panicked).
func (c *Coordinator) Exited() bool {
	select {
	case <-c.exited:
		return true
	default:
		return false
	}
}

// Stop ends the "process": everything the command started is cancelled. advance is called
// between polls so that sleeping goroutines (retry timers) get to see the cancellation.
func (c *Coordinator) Stop(advance func()) bool {
	if !c.stopped {
		c.stopped = true
		c.cancel()
		close(c.stop)
	}
	for i := 0; i < 12; i++ {
		if c.Exited() {
			break
		}
		advance()
	}
	mu.Lock()
	if curCo == c {
		curCo = nil
	}
	mu.Unlock()
	return c.Exited()
}
