package sidecarsim

import (
	"bytes"
	"compress/gzip"
	"errors"
	"fmt"
	"io"
	"net"
	"net/http"
	"os"
	"sync"
	"syscall"
	"time"
)

// TargetSpec is the behaviour of one simulated scrape target.
type TargetSpec struct {
	Payload     []byte
	ContentType string
	Gzip        bool
	GzipMembers int    // with Gzip: > 1 = the compressed body consists of that many gzip members
	Chunks      []int  // read chunk sizes, cycled (empty = as asked)
	Fail        string // "", connect, status, timeout, break, gzip_corrupt
	FailOffset  int    // for break / gzip_corrupt: offset in the bytes on the wire
	Reset       bool   // for break: the connection is reset (ECONNRESET) instead of closed early (unexpected EOF)
	Status      int    // for Fail == status
	// FailFirst > 0: only the first FailFirst requests served from this spec fail, later ones succeed
	// (a target that is restarting, a stale keep-alive connection)
	FailFirst int
	served    int
	// Pause, when non-nil: the body stops being delivered at wire offset PauseAt until the channel is
	// closed (or the request context ends): the scrape is in flight in the middle of its body
	Pause   chan struct{}
	PauseAt int
	// Hold, when non-nil, parks the request until the channel is closed (or the
	// request context ends): the scrape is "in flight" while the simulation does
	// something else.
	Hold chan struct{}
}

type Seen struct {
	URL    string
	Host   string
	Path   string
	Query  string
	Header http.Header
	At     time.Time
	Spec   *TargetSpec
}

// Targets is the http.RoundTripper behind every scrape client.
type Targets struct {
	mu    sync.Mutex
	Specs map[string]*TargetSpec // by URL host
	Seen  []*Seen
	// Default is used for hosts without a spec (nil = connection refused)
	Default  *TargetSpec
	holdNext map[string]chan struct{}
}

// HoldNext parks the next request to host until the returned channel is closed
// (or the request's context ends): that one scrape is "in flight".
func (t *Targets) HoldNext(host string) chan struct{} {
	t.mu.Lock()
	defer t.mu.Unlock()
	if t.holdNext == nil {
		t.holdNext = map[string]chan struct{}{}
	}
	ch := make(chan struct{})
	t.holdNext[host] = ch
	return ch
}

func NewTargets() *Targets { return &Targets{Specs: map[string]*TargetSpec{}} }

func (t *Targets) Set(host string, s *TargetSpec) {
	t.mu.Lock()
	defer t.mu.Unlock()
	t.Specs[host] = s
}

var ErrConnect = errors.New("dial tcp: connection refused (simulated target)")

// ErrBroken is what net/http reports when a connection breaks off in the middle of a body
var ErrBroken = fmt.Errorf("simulated target: body broke off: %w", io.ErrUnexpectedEOF)

// ErrReset is what net/http reports from Body.Read when the target's connection is reset (RST)
// in the middle of a body: a *net.OpError around ECONNRESET ("read tcp ...: read: connection reset by peer")
var ErrReset error = &net.OpError{Op: "read", Net: "tcp", Err: os.NewSyscallError("read", syscall.ECONNRESET)}

type bodyReader struct {
	breakErr error
	data     []byte
	off      int
	chunks   []int
	ci       int
	breakAt  int // -1 = never
	stall    <-chan struct{}
	stallE   func() error
	pause    <-chan struct{}
	pauseAt  int
	ctxDone  <-chan struct{}
}

func (b *bodyReader) Read(p []byte) (int, error) {
	if b.pause != nil && b.off >= b.pauseAt {
		select {
		case <-b.pause:
		case <-b.ctxDone:
		}
		b.pause = nil
	}
	if b.stall != nil && b.off >= b.breakAt {
		<-b.stall
		return 0, b.stallE()
	}
	if b.breakAt >= 0 && b.stall == nil && b.off >= b.breakAt {
		if b.breakErr != nil {
			return 0, b.breakErr
		}
		return 0, ErrBroken
	}
	if b.off >= len(b.data) {
		return 0, io.EOF
	}
	n := len(p)
	if len(b.chunks) > 0 {
		c := b.chunks[b.ci%len(b.chunks)]
		b.ci++
		if c < 1 {
			c = 1
		}
		if c < n {
			n = c
		}
	}
	if rem := len(b.data) - b.off; n > rem {
		n = rem
	}
	if b.breakAt >= 0 && b.off+n > b.breakAt {
		n = b.breakAt - b.off
		if n == 0 {
			if b.stall != nil {
				<-b.stall
				return 0, b.stallE()
			}
			return 0, ErrBroken
		}
	}
	copy(p, b.data[b.off:b.off+n])
	b.off += n
	return n, nil
}

func (b *bodyReader) Close() error { return nil }

func Gzip(b []byte) []byte {
	var buf bytes.Buffer
	w := gzip.NewWriter(&buf)
	_, _ = w.Write(b)
	_ = w.Close()
	return buf.Bytes()
}

// GzipMembers compresses b as n concatenated gzip members (RFC 1952 2.2: a gzip file is a series
// of members; it decompresses to the concatenation), cut at roughly equal offsets.
func GzipMembers(b []byte, n int) []byte {
	if n < 2 || len(b) < n {
		return Gzip(b)
	}
	var out []byte
	for i := 0; i < n; i++ {
		out = append(out, Gzip(b[i*len(b)/n:(i+1)*len(b)/n])...)
	}
	return out
}

func (t *Targets) RoundTrip(req *http.Request) (*http.Response, error) {
	t.mu.Lock()
	spec := t.Specs[req.URL.Host]
	if spec == nil {
		spec = t.Default
	}
	t.Seen = append(t.Seen, &Seen{URL: req.URL.String(), Host: req.URL.Host, Path: req.URL.Path, Query: req.URL.RawQuery,
		Header: req.Header.Clone(), At: time.Now(), Spec: spec})
	hold := t.holdNext[req.URL.Host]
	delete(t.holdNext, req.URL.Host)
	t.mu.Unlock()
	if hold != nil {
		select {
		case <-hold:
		case <-req.Context().Done():
			return nil, req.Context().Err()
		}
	}
	if spec != nil && spec.Hold != nil {
		select {
		case <-spec.Hold:
		case <-req.Context().Done():
			return nil, req.Context().Err()
		}
	}
	fail := ""
	if spec != nil {
		fail = spec.Fail
		if spec.FailFirst > 0 {
			t.mu.Lock()
			spec.served++
			if spec.served > spec.FailFirst {
				fail = ""
			}
			t.mu.Unlock()
		}
	}
	if spec == nil || fail == "connect" {
		return nil, ErrConnect
	}
	if err := req.Context().Err(); err != nil {
		return nil, err
	}
	hdr := http.Header{}
	ct := spec.ContentType
	if ct == "" {
		ct = "text/plain; version=0.0.4"
	}
	hdr.Set("Content-Type", ct)
	if fail == "status" {
		code := spec.Status
		if code == 0 {
			code = 500
		}
		return &http.Response{StatusCode: code, Status: fmt.Sprintf("%d %s", code, http.StatusText(code)), Header: hdr,
			Body: io.NopCloser(bytes.NewReader([]byte("error\n"))), Request: req, Proto: "HTTP/1.1", ProtoMajor: 1, ProtoMinor: 1}, nil
	}
	wire := spec.Payload
	if spec.Gzip {
		wire = GzipMembers(spec.Payload, spec.GzipMembers)
		hdr.Set("Content-Encoding", "gzip")
	}
	br := &bodyReader{data: wire, chunks: spec.Chunks, breakAt: -1}
	if spec.Pause != nil {
		br.pause, br.pauseAt, br.ctxDone = spec.Pause, spec.PauseAt, req.Context().Done()
		if len(br.chunks) == 0 {
			br.chunks = []int{64} // small reads, so that the pause offset is really reached mid-body
		}
	}
	switch fail {
	case "break":
		br.breakAt = spec.FailOffset
		if br.breakAt > len(wire) {
			br.breakAt = len(wire)
		}
		if spec.Reset {
			br.breakErr = ErrReset
		}
	case "gzip_corrupt":
		w2 := append([]byte(nil), wire...)
		o := spec.FailOffset
		if o >= len(w2) {
			o = len(w2) - 1
		}
		if o < 0 {
			o = 0
		}
		for i := o; i < len(w2) && i < o+8; i++ {
			w2[i] ^= 0xff
		}
		br.data = w2
	case "timeout":
		br.breakAt = spec.FailOffset
		if br.breakAt > len(wire) {
			br.breakAt = len(wire)
		}
		ctx := req.Context()
		br.stall = ctx.Done()
		br.stallE = ctx.Err
	}
	return &http.Response{StatusCode: 200, Status: "200 OK", Header: hdr, Body: br, Request: req,
		Proto: "HTTP/1.1", ProtoMajor: 1, ProtoMinor: 1, ContentLength: -1}, nil
}

func (t *Targets) SeenSince(n int) []*Seen {
	t.mu.Lock()
	defer t.mu.Unlock()
	return append([]*Seen(nil), t.Seen[n:]...)
}

func (t *Targets) Count() int {
	t.mu.Lock()
	defer t.mu.Unlock()
	return len(t.Seen)
}
