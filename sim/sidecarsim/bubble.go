package sidecarsim

import (
	"fmt"
	"os"
	"runtime"
	"strings"
	"sync"
	"sync/atomic"
	"testing"
	"testing/synctest"

	"github.com/VictoriaMetrics/VictoriaMetrics/lib/protoparser/common"

	"kvassverif/sched"
)

var stopOnce sync.Once

// inBubble: the code runs inside InBubble's bubble (Start can then wait for quiescence)
var inBubble atomic.Bool

// InBubble runs f inside a synctest bubble with the VictoriaMetrics unmarshal
// workers restarted inside it (pkg/scrape's init() starts them outside any
// bubble, and a bubbled WaitGroup must not be signalled from outside).
// It returns "deadlock" if the bubble ended with blocked goroutines.
func InBubble(t *testing.T, f func()) (problem string) {
	stopOnce.Do(common.StopUnmarshalWorkers)
	defer func() {
		if r := recover(); r != nil {
			msg := fmt.Sprint(r)
			if strings.Contains(msg, "deadlock") {
				if os.Getenv("KVSIM_DEADLOCK_DUMP") != "" {
					buf := make([]byte, 1<<20)
					fmt.Println(string(buf[:runtime.Stack(buf, true)]))
				}
				problem = "deadlock: " + msg
				return
			}
			panic(r)
		}
	}()
	synctest.Test(t, func(t *testing.T) {
		inBubble.Store(true)
		defer inBubble.Store(false)
		sched.ResetClock()
		common.StartUnmarshalWorkers()
		defer common.StopUnmarshalWorkers()
		defer StopAll() // the command bodies of sidecars still "running" must return before the bubble ends
		f()
	})
	return ""
}

// WithParserWorkers runs f with n OS-level processors and n VictoriaMetrics
// unmarshal workers (the pool is sized from GOMAXPROCS when it starts, and the
// simulator's workers run at GOMAXPROCS=1, which would leave a single worker
// and no parallelism inside the parser callback). Must be called inside the
// bubble of InBubble with no scrape in flight.
func WithParserWorkers(n int, f func()) {
	old := runtime.GOMAXPROCS(n)
	common.StopUnmarshalWorkers()
	common.StartUnmarshalWorkers()
	defer func() {
		runtime.GOMAXPROCS(old)
		common.StopUnmarshalWorkers()
		common.StartUnmarshalWorkers()
	}()
	f()
}
