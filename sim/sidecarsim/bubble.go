package sidecarsim

import (
	"fmt"
	"strings"
	"sync"
	"testing"
	"testing/synctest"

	"github.com/VictoriaMetrics/VictoriaMetrics/lib/protoparser/common"

	"kvassverif/sched"
)

var stopOnce sync.Once

// InBubble runs f inside a synctest bubble with the VictoriaMetrics unmarshal
// workers restarted inside it (pkg/scrape's init() starts them outside any
// bubble, and a bubbled WaitGroup must not be signalled from outside).
// It returns "deadlock" if the bubble ended with blocked goroutines.
func InBubble(t *testing.T, f func()) (problem string) {
	stopOnce.Do(common.StopUnmarshalWorkers)
	defer func() {
		if r := recover(); r != nil {
			msg := fmt.Sprint(r)
			if strings.Contains(msg, "deadlock") {
				problem = "deadlock: " + msg
				return
			}
			panic(r)
		}
	}()
	synctest.Test(t, func(t *testing.T) {
		sched.ResetClock()
		common.StartUnmarshalWorkers()
		defer common.StopUnmarshalWorkers()
		f()
	})
	return ""
}
