// Package sidecarsim runs a real kvass sidecar: the command body of
// cmd/kvass/sidecar.go itself (TargetsManager, Service, Proxy, Injector,
// prom.ConfigManager, scrape.Manager, prom.Client, wired by the command), with a
// Prometheus stub and simulated scrape targets behind it.
package sidecarsim

import (
	"bytes"
	"encoding/json"
	"fmt"
	"io"
	"net/http"
	"net/http/httptest"
	"net/url"
	"os"
	"path/filepath"
	"sort"
	"strings"
	"sync"
	"sync/atomic"
	"testing/synctest"

	"github.com/gin-gonic/gin"
	_ "github.com/prometheus/prometheus/discovery/install" // as cmd/kvass/main.go does
	"github.com/sirupsen/logrus"

	"tkestack.io/kvass/pkg/prom"
	"tkestack.io/kvass/pkg/scrape"
	"tkestack.io/kvass/pkg/shard"
	"tkestack.io/kvass/pkg/target"
	"tkestack.io/kvass/pkg/verifcmd"
	"tkestack.io/kvass/pkg/verifhook"
)

func init() {
	gin.SetMode(gin.ReleaseMode)
	gin.DefaultWriter = io.Discard
	gin.DefaultErrorWriter = io.Discard
}

func init() {
	// the command logs through logrus' standard logger and fresh loggers
	logrus.SetOutput(io.Discard)
	logrus.SetLevel(logrus.PanicLevel)
}

// Options of one sidecar "process".
type Options struct {
	Dir          string // private directory: store + config files live here
	ConfigFile   string // "" = push mode (config comes from the coordinator)
	ShardMonitor bool
	Targets      http.RoundTripper // what the proxy's scrape clients talk to
	// PromHost: host:port of this sidecar's Prometheus (several sidecars in one world need
	// different ones); "" = 127.0.0.1:9090, the command's default
	PromHost string
	// SAPath: --inject.kubernetes-sa-path of this process ("" = the command's default: none)
	SAPath string
	// NoSettle: return as soon as the command serves (both listeners taken) even if its start path is
	// still running - only meaningful for a command that listens before it has finished starting
	NoSettle bool
	// HoldFirstReload: the Prometheus stub holds the first /-/reload request it gets (the one of the
	// command's start path in file mode) until ReleaseFirstReload; Start then returns as soon as the
	// command either serves or sits in that request
	HoldFirstReload bool
}

// Sidecar is one running sidecar instance ("process"): the real `kvass sidecar` command
// body (cmd/kvass/sidecar.go, compiled as a package by the build overlay) runs in its own
// goroutine; its two listeners are handed to the simulator instead of sockets. Restart
// creates a new one over the same directory.
type Sidecar struct {
	Opt     Options
	OutFile string

	Service http.Handler // what the command serves on --web.api-addr
	Proxy   http.Handler // what the command serves on --web.proxy-addr

	// Prometheus stub hooks (the command's prom client reaches them through http.DefaultTransport)
	Reloads    int
	ReloadErr  error
	HeadSeries func() (int64, error)
	OnReload   func()

	LoadErr error

	stop    chan struct{}
	ready   chan struct{}
	exited  chan struct{}
	inFirst chan struct{} // closed when the held first reload has arrived
	gate    chan struct{} // closed to let it go on
	held    bool
	inCall  atomic.Int32 // >0 while the harness itself is inside an API call of this sidecar (its reloads are not "the start path's")
	nListen int
	stopped bool
}

const ProxyURL = "http://127.0.0.1:8008"
const PromURL = "http://127.0.0.1:9090"

var (
	mu       sync.Mutex
	starting *Sidecar
	byProm   = map[string]*Sidecar{}
	live     []*Sidecar
	hookOnce sync.Once
)

// Router answers requests to a sidecar's Prometheus from the stub and passes everything
// else on. It must be (in) http.DefaultTransport while sidecars run.
type Router struct{ Next http.RoundTripper }

func (r *Router) RoundTrip(req *http.Request) (*http.Response, error) {
	mu.Lock()
	s := byProm[req.URL.Host]
	mu.Unlock()
	if s == nil {
		if r.Next == nil {
			return nil, fmt.Errorf("sidecarsim: no route to %s", req.URL.Host)
		}
		return r.Next.RoundTrip(req)
	}
	if req.Body != nil {
		_, _ = io.Copy(io.Discard, req.Body)
		_ = req.Body.Close()
	}
	rr := httptest.NewRecorder()
	s.prometheus(rr, req)
	return rr.Result(), nil
}

// prometheus is the stub of the Prometheus process next to the sidecar.
func (s *Sidecar) prometheus(w http.ResponseWriter, req *http.Request) {
	switch {
	case req.Method == "POST" && req.URL.Path == "/-/reload":
		if s.Opt.HoldFirstReload && !s.held && s.inCall.Load() == 0 {
			s.held = true
			close(s.inFirst)
			<-s.gate
		}
		s.Reloads++
		if s.OnReload != nil {
			s.OnReload()
		}
		if s.ReloadErr != nil {
			http.Error(w, s.ReloadErr.Error(), 500)
			return
		}
		w.WriteHeader(200)
	case req.Method == "GET" && req.URL.Path == "/api/v1/status/tsdb":
		var n int64
		if s.HeadSeries != nil {
			var err error
			if n, err = s.HeadSeries(); err != nil {
				http.Error(w, err.Error(), 500)
				return
			}
		}
		w.Header().Set("Content-Type", "application/json")
		fmt.Fprintf(w, `{"status":"success","data":{"headStats":{"numSeries":%d}}}`, n)
	default:
		http.Error(w, "not found", 404)
	}
}

func installHooks() {
	// the commands log through fresh loggers on os.Stderr (the runtime's crash output does
	// not go through this variable and stays visible)
	if os.Getenv("KVSIM_LOGS") == "" {
		if f, err := os.OpenFile(os.DevNull, os.O_WRONLY, 0); err == nil {
			os.Stderr = f
		}
	}
	listen := func(addr string, h http.Handler) error {
		if addr == CoordAddr {
			return coordListen(h)
		}
		mu.Lock()
		s := starting
		if s == nil {
			mu.Unlock()
			return fmt.Errorf("sidecarsim: listen on %s outside a start", addr)
		}
		switch addr {
		case ":8080":
			s.Service = h
		case ":8008":
			s.Proxy = h
		default:
			mu.Unlock()
			return fmt.Errorf("sidecarsim: unexpected listen address %q", addr)
		}
		s.nListen++
		if s.nListen == 2 {
			close(s.ready)
		}
		mu.Unlock()
		<-s.stop
		return http.ErrServerClosed
	}
	verifhook.ListenFn.Store(&listen)
}

// Start runs the real command body of `kvass sidecar` (its own wiring: callbacks, their
// order, the start path ReloadFromFile / Load) until it serves. Where the command panics
// (unreadable configuration file, Load error) the panic value is returned in LoadErr.
func Start(opt Options) *Sidecar {
	hookOnce.Do(installHooks)
	if _, ok := http.DefaultTransport.(*Router); !ok {
		http.DefaultTransport = &Router{Next: http.DefaultTransport}
	}
	s := &Sidecar{Opt: opt, OutFile: filepath.Join(opt.Dir, "prometheus_injected.yaml"),
		stop: make(chan struct{}), ready: make(chan struct{}), exited: make(chan struct{}), inFirst: make(chan struct{}), gate: make(chan struct{})}
	promHost := opt.PromHost
	if promHost == "" {
		promHost = "127.0.0.1:9090"
	}
	// the scrape clients the command builds are pointed at the simulated targets
	if opt.Targets != nil {
		tr := opt.Targets
		fn := func(c *http.Client) { c.Transport = tr }
		verifhook.ClientFn.Store(&fn)
	} else {
		verifhook.ClientFn.Store(nil)
	}
	args := []string{
		"--config.file=" + opt.ConfigFile,
		"--config.output-file=" + s.OutFile,
		"--store.path=" + filepath.Join(opt.Dir, "store"),
		"--web.proxy-addr=:8008",
		"--web.api-addr=:8080",
		"--prometheus.url=http://" + promHost,
		"--inject.proxy=" + ProxyURL,
		"--inject.kubernetes-sa-path=" + opt.SAPath,
		"--shard.fetch-head-series=true",
		"--scrape.disable-keep-alive=false",
		fmt.Sprintf("--shard.self-monitor=%v", opt.ShardMonitor),
	}
	mu.Lock()
	if old := byProm[promHost]; old != nil && !old.stopped {
		mu.Unlock()
		old.Stop() // the process this one replaces
		mu.Lock()
	}
	byProm[promHost] = s
	starting = s
	live = append(live, s)
	mu.Unlock()
	go func() {
		defer close(s.exited)
		defer func() {
			if r := recover(); r != nil {
				s.LoadErr = fmt.Errorf("%v", r)
			}
		}()
		if err := verifcmd.RunSidecar(args); err != nil && err != http.ErrServerClosed && s.LoadErr == nil {
			select {
			case <-s.stop:
			default:
				s.LoadErr = err
			}
		}
	}()
	select {
	case <-s.ready:
	case <-s.inFirst:
	case <-s.exited:
		if s.LoadErr == nil {
			s.LoadErr = fmt.Errorf("sidecar command returned before serving")
		}
	}
	if !s.Serving() {
		// returned because the first reload is held (or the command ended): the listeners, if any, come
		// later and still belong to this sidecar - ReleaseFirstReload finishes the start
		return s
	}
	mu.Lock()
	starting = nil
	mu.Unlock()
	// the real command listens last; one that listens earlier is still busy starting here
	if inBubble.Load() && !opt.NoSettle {
		synctest.Wait()
	}
	return s
}

// Serving: both listeners are up.
func (s *Sidecar) Serving() bool {
	select {
	case <-s.ready:
		return true
	default:
		return false
	}
}

// ReleaseFirstReload lets a held first reload go on and waits until the command serves (or has ended).
func (s *Sidecar) ReleaseFirstReload() {
	select {
	case <-s.gate:
	default:
		close(s.gate)
	}
	select {
	case <-s.ready:
	case <-s.exited:
	}
	mu.Lock()
	if starting == s {
		starting = nil
	}
	mu.Unlock()
}

// Settle waits until the command (and everything else in the bubble) is quiescent.
func Settle() {
	if inBubble.Load() {
		synctest.Wait()
	}
}

// SetClientTransport decides which transport the HTTP clients that pkg/scrape builds from now on get
// (a world with a coordinator and sidecars in one process switches it around configuration loads).
func SetClientTransport(tr http.RoundTripper) {
	if tr == nil {
		verifhook.ClientFn.Store(nil)
		return
	}
	fn := func(c *http.Client) { c.Transport = tr }
	verifhook.ClientFn.Store(&fn)
}

// Stop ends the "process": its listeners return, the command body returns.
func (s *Sidecar) Stop() {
	mu.Lock()
	if s.stopped {
		mu.Unlock()
		return
	}
	s.stopped = true
	if starting == s {
		starting = nil
	}
	ph := s.Opt.PromHost
	if ph == "" {
		ph = "127.0.0.1:9090"
	}
	if byProm[ph] == s {
		delete(byProm, ph)
	}
	for i, x := range live {
		if x == s {
			live = append(live[:i], live[i+1:]...)
			break
		}
	}
	mu.Unlock()
	select {
	case <-s.gate:
	default:
		close(s.gate)
	}
	close(s.stop)
	<-s.exited
}

// StopAll ends every sidecar still running (end of a run / of a bubble).
func StopAll() {
	for {
		mu.Lock()
		if len(live) == 0 {
			mu.Unlock()
			return
		}
		s := live[0]
		mu.Unlock()
		s.Stop()
	}
}

// Restart: a new process over the same directory; nothing in memory survives.
func (s *Sidecar) Restart() *Sidecar {
	s.Stop()
	n := Start(s.Opt)
	n.HeadSeries = s.HeadSeries
	return n
}

// ConfigText is the configuration the sidecar runs, as its own API reports it.
func (s *Sidecar) ConfigText() string {
	var d struct {
		YAML string `json:"yaml"`
	}
	if err := decode(s.do("GET", "/api/v1/status/config/", nil), &d); err != nil {
		return ""
	}
	return d.YAML
}

// ---- API access through the real gin routes

func (s *Sidecar) do(method, path string, body interface{}) *httptest.ResponseRecorder {
	var rd io.Reader
	if body != nil {
		b, _ := json.Marshal(body)
		rd = bytes.NewReader(b)
	}
	req := httptest.NewRequest(method, path, rd)
	if body != nil {
		req.Header.Set("Content-Type", "application/json")
	}
	rr := httptest.NewRecorder()
	s.inCall.Add(1)
	defer s.inCall.Add(-1)
	s.Service.ServeHTTP(rr, req)
	return rr
}

type envelope struct {
	Status string          `json:"status"`
	Err    string          `json:"error"`
	Data   json.RawMessage `json:"data"`
}

func decode(rr *httptest.ResponseRecorder, into interface{}) error {
	if rr.Code != 200 {
		return fmt.Errorf("status %d: %s", rr.Code, rr.Body.String())
	}
	var env envelope
	if err := json.Unmarshal(rr.Body.Bytes(), &env); err != nil {
		return err
	}
	if env.Status != "success" {
		return fmt.Errorf("api error: %s", env.Err)
	}
	if into != nil && len(env.Data) > 0 {
		return json.Unmarshal(env.Data, into)
	}
	return nil
}

func (s *Sidecar) PostTargets(req *shard.UpdateTargetsRequest) error {
	return decode(s.do("POST", "/api/v1/shard/targets/", &req), nil)
}

func (s *Sidecar) GetStatus() (map[uint64]*target.ScrapeStatus, error) {
	m := map[uint64]*target.ScrapeStatus{}
	err := decode(s.do("GET", "/api/v1/shard/targets/status/", nil), &m)
	return m, err
}

func (s *Sidecar) GetRuntime() (*shard.RuntimeInfo, error) {
	rt := &shard.RuntimeInfo{}
	err := decode(s.do("GET", "/api/v1/shard/runtimeinfo/", nil), rt)
	return rt, err
}

func (s *Sidecar) GetSamples(job string, detail bool) (map[string]*scrape.StatisticsSeriesResult, error) {
	q := url.Values{}
	if job != "" {
		q.Set("job", job)
	}
	if detail {
		q.Set("with_metrics_detail", "true")
	}
	p := "/api/v1/shard/samples/"
	if len(q) > 0 {
		p += "?" + q.Encode()
	}
	m := map[string]*scrape.StatisticsSeriesResult{}
	err := decode(s.do("GET", p, nil), &m)
	return m, err
}

func (s *Sidecar) PushConfig(raw string) error {
	return decode(s.do("POST", "/api/v1/status/config/", &shard.UpdateConfigRequest{RawContent: raw}), nil)
}

// ReloadFile asks a file-mode sidecar to re-read its configuration file.
func (s *Sidecar) ReloadFile() error {
	return decode(s.do("POST", "/-/reload/", nil), nil)
}

func (s *Sidecar) PushExtra(c *prom.ExtraConfig) error {
	return decode(s.do("POST", "/api/v1/status/extra_config/", c), nil)
}

// ScrapeURL builds the absolute-URI request a Prometheus configured with the
// generated file would send to the proxy for (job, hash, real target URL).
func ScrapeURL(job string, hash uint64, scheme string, u *url.URL) string {
	q := u.Query()
	q.Set("_jobName", job)
	q.Set("_hash", fmt.Sprint(hash))
	q.Set("_scheme", scheme)
	c := *u
	c.Scheme = "http"
	c.RawQuery = q.Encode()
	return c.String()
}

// Scrape sends one scrape through the real Proxy.ServeHTTP. Like net/http's
// server it treats a panic with http.ErrAbortHandler as "response aborted".
func (s *Sidecar) Scrape(w http.ResponseWriter, rawURL string) (aborted bool) {
	req, err := http.NewRequest("GET", rawURL, nil)
	if err != nil {
		panic(err)
	}
	defer func() {
		if r := recover(); r != nil {
			if r == http.ErrAbortHandler {
				aborted = true
				return
			}
			panic(r)
		}
	}()
	s.Proxy.ServeHTTP(w, req)
	return false
}

// StoreFiles lists the store directory (name -> content) for diagnostics.
func (s *Sidecar) StoreFiles() map[string]string {
	out := map[string]string{}
	ents, _ := os.ReadDir(filepath.Join(s.Opt.Dir, "store"))
	for _, e := range ents {
		b, _ := os.ReadFile(filepath.Join(s.Opt.Dir, "store", e.Name()))
		out[e.Name()] = string(b)
	}
	return out
}

func SortedHashes[V any](m map[uint64]V) []uint64 {
	out := make([]uint64, 0, len(m))
	for h := range m {
		out = append(out, h)
	}
	sort.Slice(out, func(a, b int) bool { return out[a] < out[b] })
	return out
}

var _ = strings.TrimSpace
