// Package sidecarsim assembles a real kvass sidecar (TargetsManager, Service,
// Proxy, Injector, prom.ConfigManager, scrape.Manager) exactly as
// cmd/kvass/sidecar.go wires it, with a Prometheus stub and simulated scrape
// targets behind it.
package sidecarsim

import (
	"bytes"
	"encoding/json"
	"fmt"
	"io"
	"net/http"
	"net/http/httptest"
	"net/url"
	"os"
	"path/filepath"
	"sort"
	"strings"

	"github.com/gin-gonic/gin"
	"github.com/prometheus/client_golang/prometheus"
	_ "github.com/prometheus/prometheus/discovery/install" // as cmd/kvass/main.go does
	"github.com/sirupsen/logrus"

	"tkestack.io/kvass/pkg/prom"
	"tkestack.io/kvass/pkg/scrape"
	"tkestack.io/kvass/pkg/shard"
	"tkestack.io/kvass/pkg/sidecar"
	"tkestack.io/kvass/pkg/target"
)

func init() {
	gin.SetMode(gin.ReleaseMode)
	gin.DefaultWriter = io.Discard
	gin.DefaultErrorWriter = io.Discard
}

func quiet() *logrus.Logger {
	l := logrus.New()
	l.SetOutput(io.Discard)
	l.SetLevel(logrus.PanicLevel)
	return l
}

// Options of one sidecar "process".
type Options struct {
	Dir          string // private directory: store + config files live here
	ConfigFile   string // "" = push mode (config comes from the coordinator)
	ShardMonitor bool
	Targets      http.RoundTripper // what the proxy's scrape clients talk to
}

// Sidecar is one running sidecar instance ("process"). Restart creates a new one
// over the same directory.
type Sidecar struct {
	Opt     Options
	OutFile string

	ScrapeManager *scrape.Manager
	ConfigManager *prom.ConfigManager
	TargetManager *sidecar.TargetsManager
	Proxy         *sidecar.Proxy
	Injector      *sidecar.Injector
	Service       *sidecar.Service

	// Prometheus stub hooks
	Reloads    int
	ReloadErr  error
	HeadSeries func() (int64, error)
	OnReload   func()

	LoadErr error
}

const ProxyURL = "http://127.0.0.1:8008"
const PromURL = "http://127.0.0.1:9090"

// Start replicates the wiring of cmd/kvass/sidecar.go (callbacks in the same
// order) and runs the start path: ReloadFromFile (file mode) and Load.
// A Load error is what makes the real command panic; it is returned in LoadErr.
func Start(opt Options) *Sidecar {
	lg := quiet()
	s := &Sidecar{Opt: opt, OutFile: filepath.Join(opt.Dir, "prometheus_injected.yaml")}
	reg := prometheus.NewRegistry()
	s.ScrapeManager = scrape.New(false, lg)
	s.ConfigManager = prom.NewConfigManager()
	s.TargetManager = sidecar.NewTargetsManager(filepath.Join(opt.Dir, "store"), reg, lg)
	s.Proxy = sidecar.NewProxy(s.ScrapeManager.GetJob,
		func() map[uint64]*target.ScrapeStatus { return s.TargetManager.TargetsInfo().Status },
		s.ConfigManager.ConfigInfo, reg, lg)
	s.Injector = sidecar.NewInjector(s.OutFile, sidecar.InjectConfigOptions{
		ProxyURL: ProxyURL, PrometheusURL: PromURL, ShardMonitorEnable: opt.ShardMonitor}, reg, lg)
	reload := func() error {
		s.Reloads++
		if s.OnReload != nil {
			s.OnReload()
		}
		return s.ReloadErr
	}
	s.ConfigManager.AddReloadCallbacks(
		func(cfg *prom.ConfigInfo) error { return nil }, // configInjectSidecar with no service-account path
		s.ScrapeManager.ApplyConfig,
		func(cfg *prom.ConfigInfo) error { // harness: route the scrape clients to the simulated targets
			if opt.Targets != nil {
				for _, j := range cfg.Config.ScrapeConfigs {
					if ji := s.ScrapeManager.GetJob(j.JobName); ji != nil {
						ji.Cli.Transport = opt.Targets
					}
				}
			}
			return nil
		},
		s.Injector.ApplyConfig,
		func(cfg *prom.ConfigInfo) error { return reload() },
	)
	s.TargetManager.AddUpdateCallbacks(
		s.Injector.UpdateTargets,
		func(map[string][]*target.Target) error { return reload() },
	)
	s.Service = sidecar.NewService(opt.ConfigFile, PromURL,
		func() (int64, error) {
			if s.HeadSeries != nil {
				return s.HeadSeries()
			}
			return 0, nil
		}, s.ConfigManager, s.TargetManager, reg, lg)
	if opt.ConfigFile != "" {
		if err := s.ConfigManager.ReloadFromFile(opt.ConfigFile); err != nil {
			s.LoadErr = fmt.Errorf("reload config file: %w", err)
			return s
		}
	}
	if err := s.TargetManager.Load(); err != nil {
		s.LoadErr = err
	}
	return s
}

// Restart: a new process over the same directory; nothing in memory survives.
func (s *Sidecar) Restart() *Sidecar {
	n := Start(s.Opt)
	n.HeadSeries = s.HeadSeries
	return n
}

// ---- API access through the real gin routes

func (s *Sidecar) do(method, path string, body interface{}) *httptest.ResponseRecorder {
	var rd io.Reader
	if body != nil {
		b, _ := json.Marshal(body)
		rd = bytes.NewReader(b)
	}
	req := httptest.NewRequest(method, path, rd)
	if body != nil {
		req.Header.Set("Content-Type", "application/json")
	}
	rr := httptest.NewRecorder()
	s.Service.ServeHTTP(rr, req)
	return rr
}

type envelope struct {
	Status string          `json:"status"`
	Err    string          `json:"error"`
	Data   json.RawMessage `json:"data"`
}

func decode(rr *httptest.ResponseRecorder, into interface{}) error {
	if rr.Code != 200 {
		return fmt.Errorf("status %d: %s", rr.Code, rr.Body.String())
	}
	var env envelope
	if err := json.Unmarshal(rr.Body.Bytes(), &env); err != nil {
		return err
	}
	if env.Status != "success" {
		return fmt.Errorf("api error: %s", env.Err)
	}
	if into != nil && len(env.Data) > 0 {
		return json.Unmarshal(env.Data, into)
	}
	return nil
}

func (s *Sidecar) PostTargets(req *shard.UpdateTargetsRequest) error {
	return decode(s.do("POST", "/api/v1/shard/targets/", &req), nil)
}

func (s *Sidecar) GetStatus() (map[uint64]*target.ScrapeStatus, error) {
	m := map[uint64]*target.ScrapeStatus{}
	err := decode(s.do("GET", "/api/v1/shard/targets/status/", nil), &m)
	return m, err
}

func (s *Sidecar) GetRuntime() (*shard.RuntimeInfo, error) {
	rt := &shard.RuntimeInfo{}
	err := decode(s.do("GET", "/api/v1/shard/runtimeinfo/", nil), rt)
	return rt, err
}

func (s *Sidecar) GetSamples(job string, detail bool) (map[string]*scrape.StatisticsSeriesResult, error) {
	q := url.Values{}
	if job != "" {
		q.Set("job", job)
	}
	if detail {
		q.Set("with_metrics_detail", "true")
	}
	p := "/api/v1/shard/samples/"
	if len(q) > 0 {
		p += "?" + q.Encode()
	}
	m := map[string]*scrape.StatisticsSeriesResult{}
	err := decode(s.do("GET", p, nil), &m)
	return m, err
}

func (s *Sidecar) PushConfig(raw string) error {
	return decode(s.do("POST", "/api/v1/status/config/", &shard.UpdateConfigRequest{RawContent: raw}), nil)
}

// ReloadFile asks a file-mode sidecar to re-read its configuration file.
func (s *Sidecar) ReloadFile() error {
	return decode(s.do("POST", "/-/reload/", nil), nil)
}

func (s *Sidecar) PushExtra(c *prom.ExtraConfig) error {
	return decode(s.do("POST", "/api/v1/status/extra_config/", c), nil)
}

// ScrapeURL builds the absolute-URI request a Prometheus configured with the
// generated file would send to the proxy for (job, hash, real target URL).
func ScrapeURL(job string, hash uint64, scheme string, u *url.URL) string {
	q := u.Query()
	q.Set("_jobName", job)
	q.Set("_hash", fmt.Sprint(hash))
	q.Set("_scheme", scheme)
	c := *u
	c.Scheme = "http"
	c.RawQuery = q.Encode()
	return c.String()
}

// Scrape sends one scrape through the real Proxy.ServeHTTP. Like net/http's
// server it treats a panic with http.ErrAbortHandler as "response aborted".
func (s *Sidecar) Scrape(w http.ResponseWriter, rawURL string) (aborted bool) {
	req, err := http.NewRequest("GET", rawURL, nil)
	if err != nil {
		panic(err)
	}
	defer func() {
		if r := recover(); r != nil {
			if r == http.ErrAbortHandler {
				aborted = true
				return
			}
			panic(r)
		}
	}()
	s.Proxy.ServeHTTP(w, req)
	return false
}

// StoreFiles lists the store directory (name -> content) for diagnostics.
func (s *Sidecar) StoreFiles() map[string]string {
	out := map[string]string{}
	ents, _ := os.ReadDir(filepath.Join(s.Opt.Dir, "store"))
	for _, e := range ents {
		b, _ := os.ReadFile(filepath.Join(s.Opt.Dir, "store", e.Name()))
		out[e.Name()] = string(b)
	}
	return out
}

func SortedHashes[V any](m map[uint64]V) []uint64 {
	out := make([]uint64, 0, len(m))
	for h := range m {
		out = append(out, h)
	}
	sort.Slice(out, func(a, b int) bool { return out[a] < out[b] })
	return out
}

var _ = strings.TrimSpace
