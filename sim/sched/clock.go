package sched

import "time"

var eps int64

// ResetClock restarts the epsilon sequence (call at the start of a run).
func ResetClock() { eps = 0 }

// Sleep advances the fake clock by d plus a small, strictly growing offset, so
// that an instant at which the simulation loop wakes never coincides with the
// deadline of a timer kvass armed at an earlier simulation instant plus a whole
// duration (retry interval, period, scrape time-out, tickers). Two timers due in
// the very same fake instant fire in an order the Go runtime picks, and
// synctest.Wait may return before the second one has run.
func Sleep(d time.Duration) {
	eps++
	time.Sleep(d + time.Duration(eps*1009)*time.Nanosecond)
}
