// Package sched parks goroutines at the overlay's yield points (before every
// Lock() in the instrumented kvass packages) and lets the simulation loop
// release them one at a time.
package sched

import (
	"fmt"
	"os"
	"sort"
	"sync"
	"time"

	"tkestack.io/kvass/pkg/verifhook"
)

type Parked struct {
	Site string
	arr  int
	ch   chan struct{}
}

type Sched struct {
	mu      sync.Mutex
	parked  []*Parked
	arr     int
	Yields  int
	enabled bool
}

// Install makes every instrumented Lock() a parking point. Call Uninstall
// before the bubble ends.
func Install() *Sched {
	s := &Sched{enabled: true}
	f := func(site string) { s.yield(site) }
	verifhook.YieldFn.Store(&f)
	return s
}

func (s *Sched) Uninstall() {
	verifhook.YieldFn.Store(nil)
	s.mu.Lock()
	s.enabled = false
	p := s.parked
	s.parked = nil
	s.mu.Unlock()
	for _, x := range p {
		close(x.ch)
	}
}

var ytrace = os.Getenv("KVSIM_YTRACE") != ""

func (s *Sched) yield(site string) {
	if ytrace {
		fmt.Fprintf(os.Stdout, "YTRACE park %s at %s enabled=%v\n", site, time.Now().Format("15:04:05.000000000"), s.enabled)
	}
	s.mu.Lock()
	if !s.enabled {
		s.mu.Unlock()
		return
	}
	s.arr++
	s.Yields++
	p := &Parked{Site: site, arr: s.arr, ch: make(chan struct{})}
	s.parked = append(s.parked, p)
	s.mu.Unlock()
	<-p.ch
}

// Pending returns the parked goroutines ordered by site, then arrival.
func (s *Sched) Pending() []*Parked {
	s.mu.Lock()
	defer s.mu.Unlock()
	out := append([]*Parked(nil), s.parked...)
	sort.SliceStable(out, func(a, b int) bool {
		if out[a].Site != out[b].Site {
			return out[a].Site < out[b].Site
		}
		return out[a].arr < out[b].arr
	})
	return out
}

func (s *Sched) Release(p *Parked) {
	if ytrace {
		fmt.Fprintf(os.Stdout, "YTRACE release %s at %s\n", p.Site, time.Now().Format("15:04:05.000000000"))
	}
	// each released goroutine proceeds at its own fake instant (see Sleep)
	Sleep(0)
	s.mu.Lock()
	for i, x := range s.parked {
		if x == p {
			s.parked = append(s.parked[:i], s.parked[i+1:]...)
			break
		}
	}
	s.mu.Unlock()
	close(p.ch)
}
