// Package k8seng is the k8s engine: the real kubernetes ReplicasManager and
// shard manager against a client-go fake clientset (the API-server stub) with
// error reactors, drawn pod list orders and a concurrent writer.
package k8seng

import (
	"context"
	"fmt"
	"sort"
	"strings"
	"time"

	appsv1 "k8s.io/api/apps/v1"
	corev1 "k8s.io/api/core/v1"
	k8serr "k8s.io/apimachinery/pkg/api/errors"
	metav1 "k8s.io/apimachinery/pkg/apis/meta/v1"
	"k8s.io/apimachinery/pkg/runtime"
	"k8s.io/apimachinery/pkg/runtime/schema"
	"k8s.io/client-go/kubernetes/fake"
	k8stesting "k8s.io/client-go/testing"

	"kvassverif/core"
	"kvassverif/cycle"
	"kvassverif/sidecarsim"

	kshard "tkestack.io/kvass/pkg/shard/kubernetes"
)

const ns = "monitoring"

type world struct {
	cli      *fake.Clientset
	podOrder []corev1.Pod
	failVerb string // "get-sts", "update-sts", "delete-pvc", "list-pods", "list-sts"
	failOrd  int    // for delete-pvc: ordinal whose deletion fails (-1 = all)
	writes   int
}

func i32(v int32) *int32 { return &v }

func mkSts(name string, replicas int32, templates int, updated, ready int32) *appsv1.StatefulSet {
	s := &appsv1.StatefulSet{ObjectMeta: metav1.ObjectMeta{Name: name, Namespace: ns, Labels: map[string]string{"app.kubernetes.io/name": "prometheus"}},
		Spec:   appsv1.StatefulSetSpec{Replicas: i32(replicas), Selector: &metav1.LabelSelector{MatchLabels: map[string]string{"sts": name}}},
		Status: appsv1.StatefulSetStatus{Replicas: replicas, UpdatedReplicas: updated, ReadyReplicas: ready}}
	for t := 0; t < templates; t++ {
		s.Spec.VolumeClaimTemplates = append(s.Spec.VolumeClaimTemplates, corev1.PersistentVolumeClaim{ObjectMeta: metav1.ObjectMeta{Name: fmt.Sprintf("data%d", t)}})
	}
	return s
}

func pvcName(tpl int, sts string, ord int) string { return fmt.Sprintf("data%d-%s-%d", tpl, sts, ord) }

func newWorld(objs []runtime.Object) *world {
	w := &world{cli: fake.NewSimpleClientset(objs...), failOrd: -1}
	w.cli.PrependReactor("*", "*", func(a k8stesting.Action) (bool, runtime.Object, error) {
		key := a.GetVerb() + "-" + a.GetResource().Resource
		switch a.GetVerb() {
		case "update", "delete", "create", "patch":
			w.writes++
		}
		inj := fmt.Errorf("injected API error on %s", key)
		switch {
		case w.failVerb == "get-sts" && key == "get-statefulsets":
			return true, nil, inj
		case w.failVerb == "update-sts" && key == "update-statefulsets":
			return true, nil, inj
		case w.failVerb == "update-sts-conflict" && key == "update-statefulsets":
			// another writer got in between the manager's read and its write (HTTP 409)
			return true, nil, k8serr.NewConflict(schema.GroupResource{Group: "apps", Resource: "statefulsets"}, "prom", fmt.Errorf("the object has been modified; please apply your changes to the latest version and try again"))
		case w.failVerb == "update-sts-timeout" && key == "update-statefulsets":
			return true, nil, k8serr.NewServerTimeout(schema.GroupResource{Group: "apps", Resource: "statefulsets"}, "update", 1)
		case w.failVerb == "list-pods" && key == "list-pods":
			return true, nil, inj
		case w.failVerb == "list-sts" && key == "list-statefulsets":
			return true, nil, inj
		case w.failVerb == "delete-pvc" && key == "delete-persistentvolumeclaims":
			name := a.(k8stesting.DeleteAction).GetName()
			if w.failOrd < 0 || strings.HasSuffix(name, fmt.Sprintf("-%d", w.failOrd)) {
				return true, nil, inj
			}
		}
		if key == "list-pods" && w.podOrder != nil {
			// the API server may return pods in any order: the drawn one
			sel := a.(k8stesting.ListAction).GetListRestrictions().Labels
			l := &corev1.PodList{}
			for _, p := range w.podOrder {
				if sel.Matches(labelSet(p.Labels)) {
					l.Items = append(l.Items, p)
				}
			}
			return true, l, nil
		}
		return false, nil, nil
	})
	return w
}

type labelSet map[string]string

func (l labelSet) Has(k string) bool   { _, ok := l[k]; return ok }
func (l labelSet) Get(k string) string { return l[k] }

func (w *world) pvcs() map[string]bool {
	old := w.failVerb
	w.failVerb = ""
	defer func() { w.failVerb = old }()
	l, _ := w.cli.CoreV1().PersistentVolumeClaims(ns).List(context.TODO(), metav1.ListOptions{})
	out := map[string]bool{}
	for _, p := range l.Items {
		out[p.Name] = true
	}
	return out
}

func (w *world) replicas(name string) int32 {
	old := w.failVerb
	w.failVerb = ""
	defer func() { w.failVerb = old }()
	s, err := w.cli.AppsV1().StatefulSets(ns).Get(context.TODO(), name, metav1.GetOptions{})
	if err != nil || s.Spec.Replicas == nil {
		return -1
	}
	return *s.Spec.Replicas
}

// scaleCase runs one ChangeScale against a fresh API-server stub and checks it.
func scaleCase(e *core.Env, old, newN int32, templates int, deletePVC bool, extraPVC int, failVerb string, failOrd int, concurrentOld int32) {
	name := "prom"
	objs := []runtime.Object{mkSts(name, old, templates, old, old)}
	top := int(old)
	if concurrentOld > old {
		top = int(concurrentOld)
	}
	for t := 0; t < templates; t++ {
		for i := 0; i < top+extraPVC; i++ {
			objs = append(objs, &corev1.PersistentVolumeClaim{ObjectMeta: metav1.ObjectMeta{Name: pvcName(t, name, i), Namespace: ns}})
		}
	}
	objs = append(objs, &corev1.PersistentVolumeClaim{ObjectMeta: metav1.ObjectMeta{Name: "unrelated-claim", Namespace: ns}})
	w := newWorld(objs)
	rm := kshard.NewReplicasManager(w.cli, ns, "app.kubernetes.io/name=prometheus", 8080, deletePVC, cycle.Quiet())
	ms, err := rm.Replicas()
	if err != nil || len(ms) != 1 {
		e.Undecided("Replicas() on a healthy StatefulSet: %v, %d managers", err, len(ms))
		return
	}
	serverOld := old
	if concurrentOld >= 0 && concurrentOld != old {
		// another writer changed the scale after the manager was created
		s, _ := w.cli.AppsV1().StatefulSets(ns).Get(context.TODO(), name, metav1.GetOptions{})
		s.Spec.Replicas = i32(concurrentOld)
		_, _ = w.cli.AppsV1().StatefulSets(ns).Update(context.TODO(), s, metav1.UpdateOptions{})
		serverOld = concurrentOld
		e.Probe("concurrent_writer")
	}
	before := w.pvcs()
	w.writes = 0
	w.failVerb, w.failOrd = failVerb, failOrd
	cerr := ms[0].ChangeScale(newN)
	writes := w.writes
	w.failVerb = ""
	after := w.pvcs()
	final := w.replicas(name)
	rel := "same"
	if newN > serverOld {
		rel = "up"
	} else if newN < serverOld {
		rel = "down"
	}
	attrs := fmt.Sprintf("scale=%s,templates=%d,delete=%v,error=%s", rel, min(templates, 1), deletePVC, orNone(failVerb))
	e.Key(attrs, fmt.Sprintf("concurrent=%v", concurrentOld >= 0 && concurrentOld != old))
	if failVerb != "" {
		e.Fault("k8s_api_error:" + failVerb)
	}
	var gone []string
	for n := range before {
		if !after[n] {
			gone = append(gone, n)
		}
	}
	sort.Strings(gone)
	// safety under any outcome: no claim of a remaining shard disappears, nothing unrelated disappears
	for _, g := range gone {
		ord := -1
		for t := 0; t < templates; t++ {
			pre := fmt.Sprintf("data%d-%s-", t, name)
			if strings.HasPrefix(g, pre) {
				fmt.Sscanf(strings.TrimPrefix(g, pre), "%d", &ord)
			}
		}
		if ord < 0 {
			e.Violate("unrelated-claim-deleted", attrs, "claim %s does not belong to a removed ordinal but was deleted", g)
		} else if int32(ord) < final {
			e.Violate("claim-of-remaining-shard-deleted", attrs, "replicas are %d after ChangeScale(%d) (server had %d, error: %v) but claim %s of remaining ordinal %d was deleted", final, newN, serverOld, cerr, g, ord)
		}
		if !deletePVC {
			e.Violate("claim-deleted-with-deletion-off", attrs, "volume deletion is off but claim %s was deleted", g)
		}
	}
	if failVerb == "" || cerr == nil && failVerb == "delete-pvc" {
		if cerr != nil && failVerb == "" {
			e.Violate("scale-error", attrs, "ChangeScale(%d) failed without an injected error: %v", newN, cerr)
			return
		}
		if final != newN {
			e.Violate("replicas-not-set", attrs, "after ChangeScale(%d) spec.replicas is %d (server had %d)", newN, final, serverOld)
		}
	}
	if failVerb == "" {
		if newN == serverOld && writes != 0 {
			e.Violate("write-on-unchanged", attrs, "count unchanged (%d) but %d write requests reached the API server", newN, writes)
		}
		// exactly the claims of removed ordinals that existed
		want := map[string]bool{}
		if deletePVC {
			for t := 0; t < templates; t++ {
				for i := newN; i < serverOld; i++ {
					if before[pvcName(t, name, int(i))] {
						want[pvcName(t, name, int(i))] = true
					}
				}
			}
		}
		for n := range want {
			if after[n] {
				e.Violate("claim-of-removed-shard-kept", attrs, "scaled %d -> %d with volume deletion on but claim %s still exists", serverOld, newN, n)
			}
		}
		for _, g := range gone {
			if !want[g] {
				e.Violate("wrong-claim-deleted", attrs, "scaled %d -> %d: claim %s deleted but it is not a claim of a removed ordinal", serverOld, newN, g)
			}
		}
	}
}

func orNone(s string) string {
	if s == "" {
		return "none"
	}
	return s
}

func c18Run(tp *core.Tape, e *core.Env) {
	start := time.Now()
	// complete sweep of a small (old, new, templates, flag) grid, fault-free
	if tp.Bool("grid", 1, 4) {
		for old := int32(0); old <= 4; old++ {
			for nw := int32(0); nw <= 5; nw++ {
				for tpl := 0; tpl <= 2; tpl++ {
					for _, del := range []bool{true, false} {
						if e.Failed() {
							return
						}
						scaleCase(e, old, nw, tpl, del, 1, "", -1, -1)
					}
				}
			}
		}
		e.ExhaustiveSweep()
	}
	// drawn cases with errors and a concurrent writer
	nC := 1 + tp.Choose("n_cases", 6)
	for i := 0; i < nC && !e.Failed(); i++ {
		old := int32(tp.Choose("old", 9))
		nw := int32(tp.Choose("new", 9))
		fail := core.Pick(tp, "fail", "", "", "get-sts", "update-sts", "delete-pvc", "update-sts-conflict", "update-sts-timeout")
		ford := -1
		if fail == "delete-pvc" && tp.Bool("fail_one_ordinal", 1, 2) {
			ford = tp.Choose("fail_ord", 9)
		}
		conc := int32(-1)
		if tp.Bool("concurrent", 1, 4) {
			conc = int32(tp.Choose("concurrent_old", 9))
		}
		scaleCase(e, old, nw, tp.Choose("templates", 4), tp.Bool("delete_pvc", 2, 3), tp.Choose("extra_pvc", 3), fail, ford, conc)
	}
	if !e.Failed() {
		shardsCase(tp, e)
	}
	if !e.Failed() {
		replicasCase(tp, e)
	}
	if !e.Failed() && tp.Bool("replicas_history", 1, 2) {
		if problem := sidecarsim.InBubble(e.T, func() { replicasHistoryCase(tp, e) }); problem != "" {
			e.Undecided("k8s engine: %s", problem)
		}
	}
	_ = start
}

// shardsCase: Shards() lists ordinals in order, with address and readiness, for any pod list order.
func shardsCase(tp *core.Tape, e *core.Env) {
	name := "prom"
	n := tp.Choose("n_pods", 7)
	if tp.Bool("many_pods", 1, 5) {
		n = 10 + tp.Choose("n_pods_many", 4) // two-digit ordinals: name order is not ordinal order
	}
	port := core.Pick(tp, "port", 8080, 9999)
	var pods []corev1.Pod
	type want struct {
		ip    string
		ready int // 1 ready, 0 not, -1 unasserted
	}
	wants := make([]want, n)
	for i := 0; i < n; i++ {
		p := corev1.Pod{ObjectMeta: metav1.ObjectMeta{Name: fmt.Sprintf("%s-%d", name, i), Namespace: ns, Labels: map[string]string{"sts": name}}}
		switch tp.Weighted("pod_state", 4, 1, 1, 1) {
		case 3: // being deleted (eviction, drain) but still there with its IP
			now := metav1.Now()
			p.DeletionTimestamp = &now
			p.Status.PodIP = fmt.Sprintf("10.0.0.%d", i+1)
			wants[i] = want{p.Status.PodIP, -1}
			e.Fault("pod_terminating")
		case 0:
			p.Status.PodIP = fmt.Sprintf("10.0.0.%d", i+1)
			p.Status.Conditions = []corev1.PodCondition{{Type: corev1.PodReady, Status: corev1.ConditionTrue}}
			wants[i] = want{p.Status.PodIP, 1}
		case 1: // no IP yet
			wants[i] = want{"", 0}
		case 2: // has an IP but is not Ready: the statement does not say
			p.Status.PodIP = fmt.Sprintf("10.0.0.%d", i+1)
			p.Status.Conditions = []corev1.PodCondition{{Type: corev1.PodReady, Status: corev1.ConditionFalse}}
			wants[i] = want{p.Status.PodIP, -1}
		}
		pods = append(pods, p)
	}
	extra := tp.Bool("extra_pods", 1, 5)
	if extra {
		pods = append(pods, corev1.Pod{ObjectMeta: metav1.ObjectMeta{Name: "debug-pod", Namespace: ns, Labels: map[string]string{"sts": name}}, Status: corev1.PodStatus{PodIP: "10.9.9.9"}})
	}
	other := corev1.Pod{ObjectMeta: metav1.ObjectMeta{Name: "other-0", Namespace: ns, Labels: map[string]string{"sts": "other"}}, Status: corev1.PodStatus{PodIP: "10.8.8.8"}}
	pods = append(pods, other)
	perm := tp.Perm("pod_order", len(pods))
	w := newWorld([]runtime.Object{mkSts(name, int32(n), 0, int32(n), int32(n))})
	for _, k := range perm {
		w.podOrder = append(w.podOrder, pods[k])
	}
	rm := kshard.NewReplicasManager(w.cli, ns, "app.kubernetes.io/name=prometheus", port, true, cycle.Quiet())
	ms, err := rm.Replicas()
	if err != nil || len(ms) != 1 {
		e.Undecided("Replicas(): %v", err)
		return
	}
	sh, err := ms[0].Shards()
	if err != nil {
		e.Violate("shards-error", "", "Shards() failed: %v", err)
		return
	}
	e.Key("shards", fmt.Sprintf("pods=%d", min(n, 3)), fmt.Sprintf("extra=%v", extra), fmt.Sprintf("identity-order=%v", isIdentity(perm)))
	if !extra && len(sh) != n {
		e.Violate("shard-count", "", "%d pods of the StatefulSet but %d shards listed (pod order %v)", n, len(sh), perm)
		return
	}
	for i := 0; i < n && i < len(sh); i++ {
		if sh[i].ID != fmt.Sprintf("%s-%d", name, i) {
			e.Violate("shard-order", fmt.Sprintf("extra=%v", extra), "shard #%d is %q, expected %s-%d (pod order %v)", i, sh[i].ID, name, i, perm)
			return
		}
		switch wants[i].ready {
		case 1:
			if !sh[i].Ready {
				e.Violate("readiness", "pod=ready", "pod %s has an IP and is Ready but the shard is not ready", sh[i].ID)
			}
		case 0:
			if sh[i].Ready {
				e.Violate("readiness", "pod=no-ip", "pod %s has no IP but the shard is ready", sh[i].ID)
			}
		}
	}
	// address: observed through the URL the shard would call — by its first request
	// (the url field is unexported; RuntimeInfo goes through APIGet)
	for i := 0; i < n && i < len(sh); i++ {
		if wants[i].ip == "" {
			continue
		}
		var got string
		sh[i].APIGet = func(url string, ret interface{}) error { got = url; return fmt.Errorf("probe") }
		_, _ = sh[i].RuntimeInfo()
		exp := fmt.Sprintf("http://%s:%d/api/v1/shard/runtimeinfo/", wants[i].ip, port)
		if got != exp {
			e.Violate("address", "", "shard %s is called at %q, expected %q", sh[i].ID, got, exp)
		}
	}
	// listing pods fails -> an error, not a wrong list
	w.failVerb = "list-pods"
	if l, err := ms[0].Shards(); err == nil {
		e.Violate("list-error-swallowed", "", "listing pods failed but Shards() returned %d shards and no error", len(l))
	}
	e.Fault("k8s_api_error:list-pods")
}

func isIdentity(p []int) bool {
	for i, v := range p {
		if i != v {
			return false
		}
	}
	return true
}

// replicasHistoryCase: one ReplicasManager over several cycles on the fake clock while the StatefulSet goes
// through drawn states: whatever came before and however long ago, a rolling update in progress is not
// coordinated and a fully updated, fully ready set is.
func replicasHistoryCase(tp *core.Tape, e *core.Env) {
	name := "prom-hist"
	w := newWorld([]runtime.Object{mkSts(name, 3, 1, 3, 3)})
	rm := kshard.NewReplicasManager(w.cli, ns, "app.kubernetes.io/name=prometheus", 8080, true, cycle.Quiet())
	steps := 3 + tp.Choose("history_steps", 6)
	var hist []string
	for i := 0; i < steps; i++ {
		state := core.Pick(tp, "history_state", "healthy", "rolling", "not-ready", "rolling")
		updated, ready := int32(3), int32(3)
		switch state {
		case "rolling":
			updated = int32(tp.Choose("history_updated", 3))
			ready = int32(1 + tp.Choose("history_ready", 3))
			e.Fault("sts_rolling_update")
		case "not-ready":
			ready = int32(tp.Choose("history_ready", 3))
		}
		s, err := w.cli.AppsV1().StatefulSets(ns).Get(context.TODO(), name, metav1.GetOptions{})
		if err != nil {
			e.Undecided("fake clientset: %v", err)
			return
		}
		s.Status.UpdatedReplicas, s.Status.ReadyReplicas = updated, ready
		if _, err := w.cli.AppsV1().StatefulSets(ns).Update(context.TODO(), s, metav1.UpdateOptions{}); err != nil {
			e.Undecided("fake clientset: %v", err)
			return
		}
		d := core.Pick(tp, "history_advance", 10*time.Second, 10*time.Second, time.Minute, 150*time.Second, 5*time.Minute)
		time.Sleep(d)
		hist = append(hist, fmt.Sprintf("+%s %s(updated=%d,ready=%d)", d, state, updated, ready))
		ms, err := rm.Replicas()
		if err != nil {
			e.Violate("replicas-error", "", "Replicas() failed: %v", err)
			return
		}
		switch {
		case state == "rolling" && len(ms) != 0:
			e.Violate("rolling-sts-coordinated", "history", "after %v the StatefulSet has a rolling update in progress (updated %d of 3) but is coordinated", hist, updated)
			return
		case state == "healthy" && len(ms) != 1:
			e.Violate("healthy-sts-skipped", "history", "after %v the StatefulSet is fully updated and ready but is not coordinated", hist)
			return
		}
	}
	e.Probe("replicas_history_checked")
	e.Key("replicas-history", fmt.Sprintf("steps=%d", steps/3))
}

// replicasCase: a StatefulSet in rolling update is not coordinated; healthy ones are.
func replicasCase(tp *core.Tape, e *core.Env) {
	n := 1 + tp.Choose("n_sts", 3)
	var objs []runtime.Object
	type exp struct {
		name string
		want int // 1 must be returned, 0 must not, -1 unasserted
	}
	var exps []exp
	for i := 0; i < n; i++ {
		name := fmt.Sprintf("prom-rep-%d", i)
		r := int32(1 + tp.Choose("replicas", 4))
		switch tp.Weighted("sts_state", 3, 2, 1) {
		case 0:
			objs = append(objs, mkSts(name, r, 1, r, r))
			exps = append(exps, exp{name, 1})
		case 1: // rolling update in progress
			objs = append(objs, mkSts(name, r, 1, r-1, r))
			exps = append(exps, exp{name, 0})
			e.Fault("sts_rolling_update")
		case 2: // updated but not all ready: waiting logic, unasserted
			objs = append(objs, mkSts(name, r, 1, r, r-1))
			exps = append(exps, exp{name, -1})
		}
	}
	// one that the selector does not match
	o := mkSts("unselected", 2, 0, 2, 2)
	o.Labels = map[string]string{"app.kubernetes.io/name": "other"}
	objs = append(objs, o)
	w := newWorld(objs)
	rm := kshard.NewReplicasManager(w.cli, ns, "app.kubernetes.io/name=prometheus", 8080, true, cycle.Quiet())
	for round := 0; round < 2; round++ {
		ms, err := rm.Replicas()
		if err != nil {
			e.Violate("replicas-error", "", "Replicas() failed: %v", err)
			return
		}
		got := map[string]bool{}
		for _, m := range ms {
			// identify the manager by the pods selector it lists with
			w.podOrder = []corev1.Pod{}
			var sel string
			w.cli.PrependReactor("list", "pods", func(a k8stesting.Action) (bool, runtime.Object, error) {
				sel = a.(k8stesting.ListAction).GetListRestrictions().Labels.String()
				return true, &corev1.PodList{}, nil
			})
			_, _ = m.Shards()
			got[strings.TrimPrefix(sel, "sts=")] = true
		}
		for _, x := range exps {
			if x.want == 1 && !got[x.name] {
				e.Violate("healthy-sts-skipped", "", "StatefulSet %s is fully updated and ready but is not coordinated", x.name)
			}
			if x.want == 0 && got[x.name] {
				e.Violate("rolling-sts-coordinated", "", "StatefulSet %s has a rolling update in progress but is coordinated", x.name)
			}
		}
		if got["unselected"] {
			e.Violate("unselected-sts-coordinated", "", "a StatefulSet the selector does not match is coordinated")
		}
	}
	e.Key("replicas", fmt.Sprintf("n=%d", n))
	w.failVerb = "list-sts"
	if _, err := rm.Replicas(); err == nil {
		e.Violate("list-error-swallowed", "sts", "listing StatefulSets failed but Replicas() returned no error")
	}
}
