package k8seng

import (
	"time"

	"kvassverif/core"
)

func init() {
	core.Register(&core.Spec{
		ID: "C18", Engine: "k8s", Run: c18Run,
		QuickRuns: 8000, ThorRuns: 100000, QuickCap: 60 * time.Second, ThorCap: 10 * time.Minute,
		Rule:        "a run drives the real kubernetes ReplicasManager / shard manager against a client-go fake clientset: a quarter of the runs sweep the complete grid old 0..4 x new 0..5 x 0..2 claim templates x deletion flag fault-free (reported as exhaustive sub-sweeps); every run adds 1-6 drawn ChangeScale cases (counts 0..8, 0-3 templates, extra claims above the count, injected API errors on get / update / delete of all or one ordinal's claims, a concurrent writer changing the scale after the manager was created), one Shards() case (0-6 pods in a drawn list order, with/without IP, Ready true/false, extra pods matching the selector, pods of another set) and one Replicas() case (1-3 StatefulSets healthy / rolling update / not all ready, an unselected one); a case is (scale relation, templates, flag, error verb, concurrent?) or (pods, extra, identity order?)",
		SchedLabels: []string{"fail", "fail_ord", "concurrent", "pod_order", "old", "new", "grid"},
		Real:        []string{"kubernetes.ReplicasManager (Replicas)", "kubernetes shardManager (Shards, ChangeScale)", "shard.Shard (address observed through APIGet)"},
		Stub:        []string{"Kubernetes API server: client-go fake.Clientset with reactors (error injection, drawn pod list order)"},
		Assume:      []string{"readiness of a pod that has an IP but a false Ready condition is not asserted (the statement says 'the right readiness' and the tree treats 'has an IP' as ready)", "the not-ready-for-2-minutes waiting logic of Replicas() is not asserted"},
	})
}
