module kvassverif

go 1.25

toolchain go1.26.8

godebug randseednop=0

require (
	github.com/VictoriaMetrics/VictoriaMetrics v1.71.0
	github.com/anishathalye/porcupine v1.3.0
	github.com/gin-gonic/gin v1.6.3
	github.com/go-kit/log v0.2.0
	github.com/prometheus/client_golang v1.12.1
	github.com/prometheus/common v0.32.1
	github.com/prometheus/prometheus v2.28.1+incompatible
	github.com/sirupsen/logrus v1.8.1
	gopkg.in/yaml.v2 v2.4.0
	k8s.io/api v0.22.7
	k8s.io/apimachinery v0.22.7
	k8s.io/client-go v0.22.7
	tkestack.io/kvass v0.0.0
)

require (
	cloud.google.com/go/compute v1.3.0 // indirect
	github.com/Azure/azure-sdk-for-go v62.0.0+incompatible // indirect
	github.com/Azure/go-autorest/autorest v0.11.24 // indirect
	github.com/Azure/go-autorest/autorest/adal v0.9.18 // indirect
	github.com/Azure/go-autorest/autorest/date v0.3.0 // indirect
	github.com/Azure/go-autorest/autorest/to v0.4.0 // indirect
	github.com/Azure/go-autorest/autorest/validation v0.3.1 // indirect
	github.com/Azure/go-autorest/logger v0.2.1 // indirect
	github.com/Azure/go-autorest/tracing v0.6.0 // indirect
	github.com/VictoriaMetrics/metrics v1.18.1 // indirect
	github.com/VictoriaMetrics/metricsql v0.34.0 // indirect
	github.com/alecthomas/units v0.0.0-20211218093645-b94a6e3cc137 // indirect
	github.com/armon/go-metrics v0.3.9 // indirect
	github.com/aws/aws-sdk-go v1.43.10 // indirect
	github.com/beorn7/perks v1.0.1 // indirect
	github.com/cespare/xxhash/v2 v2.1.2 // indirect
	github.com/cncf/xds/go v0.0.0-20211216145620-d92e9ce0af51 // indirect
	github.com/containerd/containerd v1.6.1 // indirect
	github.com/coreos/go-semver v0.3.0 // indirect
	github.com/cssivision/reverseproxy v0.0.1 // indirect
	github.com/davecgh/go-spew v1.1.1 // indirect
	github.com/dennwc/varint v1.0.0 // indirect
	github.com/digitalocean/godo v1.75.0 // indirect
	github.com/docker/distribution v2.7.1+incompatible // indirect
	github.com/docker/docker v20.10.12+incompatible // indirect
	github.com/docker/go-connections v0.4.0 // indirect
	github.com/docker/go-units v0.4.0 // indirect
	github.com/edsrzf/mmap-go v1.1.0 // indirect
	github.com/envoyproxy/go-control-plane v0.10.1 // indirect
	github.com/envoyproxy/protoc-gen-validate v0.6.6 // indirect
	github.com/evanphx/json-patch v4.11.0+incompatible // indirect
	github.com/fatih/color v1.13.0 // indirect
	github.com/felixge/httpsnoop v1.0.2 // indirect
	github.com/fsnotify/fsnotify v1.5.1 // indirect
	github.com/gin-contrib/pprof v1.3.0 // indirect
	github.com/gin-contrib/sse v0.1.0 // indirect
	github.com/go-kit/kit v0.12.0 // indirect
	github.com/go-logfmt/logfmt v0.5.1 // indirect
	github.com/go-logr/logr v1.2.2 // indirect
	github.com/go-logr/stdr v1.2.2 // indirect
	github.com/go-playground/locales v0.13.0 // indirect
	github.com/go-playground/universal-translator v0.17.0 // indirect
	github.com/go-playground/validator/v10 v10.2.0 // indirect
	github.com/go-resty/resty/v2 v2.1.1-0.20191201195748-d7b97669fe48 // indirect
	github.com/go-zookeeper/zk v1.0.2 // indirect
	github.com/gogo/protobuf v1.3.2 // indirect
	github.com/golang-jwt/jwt/v4 v4.2.0 // indirect
	github.com/golang/groupcache v0.0.0-20210331224755-41bb18bfe9da // indirect
	github.com/golang/protobuf v1.5.2 // indirect
	github.com/golang/snappy v0.0.4 // indirect
	github.com/google/go-cmp v0.5.7 // indirect
	github.com/google/go-querystring v1.0.0 // indirect
	github.com/google/gofuzz v1.2.0 // indirect
	github.com/googleapis/gax-go/v2 v2.1.1 // indirect
	github.com/googleapis/gnostic v0.5.5 // indirect
	github.com/gophercloud/gophercloud v0.24.0 // indirect
	github.com/grafana/regexp v0.0.0-20220304095617-2e8d9baf4ac2 // indirect
	github.com/hashicorp/consul/api v1.12.0 // indirect
	github.com/hashicorp/go-cleanhttp v0.5.2 // indirect
	github.com/hashicorp/go-hclog v0.16.2 // indirect
	github.com/hashicorp/go-immutable-radix v1.3.1 // indirect
	github.com/hashicorp/go-rootcerts v1.0.2 // indirect
	github.com/hashicorp/golang-lru v0.5.4 // indirect
	github.com/hashicorp/serf v0.9.6 // indirect
	github.com/hetznercloud/hcloud-go v1.33.1 // indirect
	github.com/imdario/mergo v0.3.12 // indirect
	github.com/jmespath/go-jmespath v0.4.0 // indirect
	github.com/jpillora/backoff v1.0.0 // indirect
	github.com/json-iterator/go v1.1.12 // indirect
	github.com/julienschmidt/httprouter v1.3.0 // indirect
	github.com/klauspost/compress v1.13.6 // indirect
	github.com/kolo/xmlrpc v0.0.0-20201022064351-38db28db192b // indirect
	github.com/leodido/go-urn v1.2.0 // indirect
	github.com/linode/linodego v1.3.0 // indirect
	github.com/mattn/go-colorable v0.1.12 // indirect
	github.com/mattn/go-isatty v0.0.14 // indirect
	github.com/matttproud/golang_protobuf_extensions v1.0.2-0.20181231171920-c182affec369 // indirect
	github.com/miekg/dns v1.1.46 // indirect
	github.com/mitchellh/hashstructure/v2 v2.0.1 // indirect
	github.com/mitchellh/mapstructure v1.4.2 // indirect
	github.com/modern-go/concurrent v0.0.0-20180306012644-bacd9c7ef1dd // indirect
	github.com/modern-go/reflect2 v1.0.2 // indirect
	github.com/mroth/weightedrand v0.4.1 // indirect
	github.com/mwitkow/go-conntrack v0.0.0-20190716064945-2f068394615f // indirect
	github.com/oklog/ulid v1.3.1 // indirect
	github.com/opencontainers/go-digest v1.0.0 // indirect
	github.com/opencontainers/image-spec v1.0.2 // indirect
	github.com/pkg/errors v0.9.1 // indirect
	github.com/pmezard/go-difflib v1.0.0 // indirect
	github.com/prometheus/client_model v0.2.0 // indirect
	github.com/prometheus/common/sigv4 v0.1.0 // indirect
	github.com/prometheus/procfs v0.7.3 // indirect
	github.com/scaleway/scaleway-sdk-go v1.0.0-beta.9 // indirect
	github.com/spf13/cobra v1.1.3 // indirect
	github.com/spf13/pflag v1.0.5 // indirect
	github.com/stretchr/testify v1.7.0 // indirect
	github.com/ugorji/go/codec v1.1.7 // indirect
	github.com/valyala/fastjson v1.6.3 // indirect
	github.com/valyala/fastrand v1.1.0 // indirect
	github.com/valyala/histogram v1.2.0 // indirect
	go.etcd.io/etcd v0.5.0-alpha.5.0.20200910180754-dd1b699fc489 // indirect
	go.opencensus.io v0.23.0 // indirect
	go.opentelemetry.io/contrib/instrumentation/net/http/otelhttp v0.29.0 // indirect
	go.opentelemetry.io/otel v1.4.1 // indirect
	go.opentelemetry.io/otel/internal/metric v0.27.0 // indirect
	go.opentelemetry.io/otel/metric v0.27.0 // indirect
	go.opentelemetry.io/otel/trace v1.4.1 // indirect
	go.uber.org/atomic v1.9.0 // indirect
	go.uber.org/goleak v1.1.12 // indirect
	golang.org/x/crypto v0.0.0-20211215153901-e495a2d5b3d3 // indirect
	golang.org/x/net v0.0.0-20220127200216-cd36cc0744dd // indirect
	golang.org/x/oauth2 v0.0.0-20211104180415-d3ed0bb246c8 // indirect
	golang.org/x/sync v0.0.0-20210220032951-036812b2e83c // indirect
	golang.org/x/sys v0.0.0-20220222172238-00053529121e // indirect
	golang.org/x/term v0.0.0-20210927222741-03fcf44c2211 // indirect
	golang.org/x/text v0.3.7 // indirect
	golang.org/x/time v0.0.0-20220210224613-90d013bbcef8 // indirect
	google.golang.org/api v0.70.0 // indirect
	google.golang.org/genproto v0.0.0-20220222154240-daf995802d7b // indirect
	google.golang.org/grpc v1.44.0 // indirect
	google.golang.org/protobuf v1.27.1 // indirect
	gopkg.in/inf.v0 v0.9.1 // indirect
	gopkg.in/yaml.v3 v3.0.0-20210107192922-496545a6307b // indirect
	k8s.io/klog/v2 v2.40.1 // indirect
	k8s.io/kube-openapi v0.0.0-20211109043538-20434351676c // indirect
	k8s.io/utils v0.0.0-20211116205334-6203023598ed // indirect
	sigs.k8s.io/structured-merge-diff/v4 v4.2.1 // indirect
	sigs.k8s.io/yaml v1.2.0 // indirect
)

replace tkestack.io/kvass => /repo

replace github.com/prometheus/prometheus => github.com/prometheus/prometheus v0.0.0-20220324221659-44a5e705be50
