// Package cyc holds the CycleTrace — the record of one coordination cycle as
// seen at the seams — and the cycle oracles of C01, C04, C05, C07, C08. The
// oracles never look inside the coordinator; they derive in-sync, before, after,
// weights and eligibility from what the shards were asked, what they answered,
// what they were sent and what the shard manager was asked to do.
package cyc

import (
	"encoding/json"
	"sort"
	"strings"
	"time"

	"kvassverif/simnet"

	"tkestack.io/kvass/pkg/shard"
	"tkestack.io/kvass/pkg/target"
)

type Options struct {
	MaxHeadSeries    int64
	MaxProcessSeries int64
	MaxShard         int32
	MinShard         int32
	MaxIdleTime      time.Duration
	DisableAlleviate bool
}

// ExpRes is what the oracle may assume the explorer knows about a target.
type ExpRes struct {
	Health string // "up" | "down" | "unknown"
	Series int64
	Total  int64
}

type ScaleRec struct {
	Seq   int // net sequence number at the time of the call
	Value int32
	Err   bool
	Now   time.Time
}

type ShardTrace struct {
	ID    string
	Ready bool
	Calls []*simnet.Call // in release order

	StatusOK      bool
	Rep           map[uint64]*target.ScrapeStatus // nil unless the client obtained the status map
	RT            []*shard.RuntimeInfo            // every runtimeinfo answer the client obtained
	RTLastOK      bool                            // the last runtimeinfo request was answered
	PushSeen      bool                            // POST status/config attempted
	PushBody      string
	PushOK        bool
	PushSeq       int
	Post          map[uint64]*target.Target // attempted POST shard/targets (nil if none)
	PostJobs      map[uint64]string
	PostSeq       int
	PostDelivered bool
	PostStatus    int      // HTTP status the sidecar answered with (0: none)
	PostDup       []uint64 // hashes occurring more than once in the POST
	ExtraSeen     bool
	FirstPostSeq  int // first POST of any kind other than the config push
	InSync        bool
	// Truth, when non-nil, is what the harness knows the shard is scraping at the
	// start of the cycle (scripted copies, or the real sidecar's state), whether
	// or not the coordinator asked for it. StatusWouldAnswer: its status endpoint
	// answers when asked.
	Truth             map[uint64]string
	StatusWouldAnswer bool
}

type ReplicaTrace struct {
	ID      string
	ListErr bool
	Shards  []*ShardTrace
	Scale   []ScaleRec
	LastSeq int // seq of the last request to any shard of this replica
}

type CycleTrace struct {
	Opt       Options
	CoordHash string
	Raw       string
	Active    map[uint64]string  // hash -> job
	Explore   map[uint64]*ExpRes // nil entry = explorer has nothing
	Replicas  []*ReplicaTrace
	Panic     string
	Deadlock  bool
}

type envelope struct {
	Status string          `json:"status"`
	Data   json.RawMessage `json:"data"`
}

func clientOK(c *simnet.Call) (json.RawMessage, bool) {
	if !c.ClientGotResponse() || c.Status != 200 {
		return nil, false
	}
	var env envelope
	if err := json.Unmarshal(c.RespBody, &env); err != nil || env.Status != "success" {
		return nil, false
	}
	return env.Data, true
}

func normPath(p string) string {
	if i := strings.IndexByte(p, '?'); i >= 0 {
		p = p[:i]
	}
	return strings.TrimRight(p, "/")
}

// BuildShard derives a ShardTrace from the calls a shard received in one cycle.
func BuildShard(id string, ready bool, calls []*simnet.Call, coordHash string) *ShardTrace {
	s := &ShardTrace{ID: id, Ready: ready, Calls: calls}
	sort.SliceStable(calls, func(a, b int) bool { return calls[a].Seq < calls[b].Seq })
	for _, c := range calls {
		if c.Delivered && c.Status >= 300 && c.Status < 400 {
			continue // redirect (gin's trailing-slash redirect); the client follows it
		}
		switch c.Method + " " + normPath(c.Path) {
		case "GET /api/v1/shard/targets/status":
			if d, ok := clientOK(c); ok {
				m := map[uint64]*target.ScrapeStatus{}
				if json.Unmarshal(d, &m) == nil {
					s.Rep = m
					s.StatusOK = true
				}
			}
		case "GET /api/v1/shard/runtimeinfo":
			s.RTLastOK = false
			if d, ok := clientOK(c); ok {
				rt := &shard.RuntimeInfo{}
				if json.Unmarshal(d, rt) == nil {
					s.RT = append(s.RT, rt)
					s.RTLastOK = true
				}
			}
		case "POST /api/v1/status/config":
			s.PushSeen = true
			s.PushSeq = c.Seq
			var r shard.UpdateConfigRequest
			_ = json.Unmarshal(c.ReqBody, &r)
			s.PushBody = r.RawContent
			_, s.PushOK = clientOK2(c)
		case "POST /api/v1/shard/targets":
			if s.FirstPostSeq == 0 {
				s.FirstPostSeq = c.Seq
			}
			var r shard.UpdateTargetsRequest
			_ = json.Unmarshal(c.ReqBody, &r)
			s.Post = map[uint64]*target.Target{}
			s.PostJobs = map[uint64]string{}
			for job, ts := range r.Targets {
				for _, t := range ts {
					if _, dup := s.Post[t.Hash]; dup {
						s.PostDup = append(s.PostDup, t.Hash)
					}
					s.Post[t.Hash] = t
					s.PostJobs[t.Hash] = job
				}
			}
			s.PostSeq = c.Seq
			s.PostDelivered = c.Delivered
			s.PostStatus = c.Status
		case "POST /api/v1/status/extra_config":
			if s.FirstPostSeq == 0 {
				s.FirstPostSeq = c.Seq
			}
			s.ExtraSeen = true
		}
	}
	s.InSync = ready && s.StatusOK && len(s.RT) > 0 && s.RTLastOK &&
		s.RT[len(s.RT)-1].ConfigHash == coordHash &&
		(s.RT[0].ConfigHash == coordHash || (s.PushOK && len(s.RT) >= 2))
	return s
}

// clientOK2: POSTs with ret == nil only need a 200.
func clientOK2(c *simnet.Call) (json.RawMessage, bool) {
	if !c.ClientGotResponse() || c.Status != 200 {
		return nil, false
	}
	return nil, true
}

// After is the target set the shard holds after the cycle as far as the trace
// can tell: the POST if it was delivered, else what it reported. nil = unknown.
func (s *ShardTrace) After() map[uint64]string {
	out := map[uint64]string{}
	if s.Post != nil && s.PostDelivered {
		for h, t := range s.Post {
			out[h] = t.TargetState
		}
		return out
	}
	if s.Rep == nil {
		return nil
	}
	for h, st := range s.Rep {
		out[h] = st.TargetState
	}
	return out
}

// Planned is the target set the coordinator decided on for the shard: the POST
// it attempted (delivered or not), else what the shard reported.
func (s *ShardTrace) Planned() map[uint64]string {
	out := map[uint64]string{}
	if s.Post != nil {
		for h, t := range s.Post {
			out[h] = t.TargetState
		}
		return out
	}
	if s.Rep == nil {
		return nil
	}
	for h, st := range s.Rep {
		out[h] = st.TargetState
	}
	return out
}

func (s *ShardTrace) LastRT() *shard.RuntimeInfo {
	if len(s.RT) == 0 {
		return nil
	}
	return s.RT[len(s.RT)-1]
}

// HealthClass names why a shard is not in sync (for signatures).
func (s *ShardTrace) HealthClass(coordHash string) string {
	switch {
	case s.InSync:
		return "in-sync"
	case !s.Ready:
		return "not-ready"
	case !s.StatusOK:
		return "status-unanswered"
	case len(s.RT) == 0:
		return "runtime-unanswered"
	case s.RT[0].ConfigHash != coordHash && !s.PushSeen:
		return "hash-differs-no-push"
	case s.RT[0].ConfigHash != coordHash && !s.PushOK:
		return "hash-differs-push-failed"
	case !s.RTLastOK:
		return "reread-unanswered"
	default:
		return "hash-differs-after-push"
	}
}

func stateName(s string) string {
	if s == "" {
		return "normal"
	}
	return s
}

func timesClass(n uint64) string {
	switch {
	case n == 0:
		return "0"
	case n < 3:
		return "1-2"
	default:
		return ">=3"
	}
}

func sortedHashes[V any](m map[uint64]V) []uint64 {
	out := make([]uint64, 0, len(m))
	for h := range m {
		out = append(out, h)
	}
	sort.Slice(out, func(a, b int) bool { return out[a] < out[b] })
	return out
}
