package cyc

import (
	"fmt"
	"sort"
	"strings"

	"kvassverif/core"

	"tkestack.io/kvass/pkg/target"
)

// Which selects the oracles to evaluate on a trace.
type Which struct{ C01, C04, C05, C07, C08 bool }

func All() Which { return Which{true, true, true, true, true} }

// Reporter receives violations; *core.Env satisfies it through Adapter.
type Reporter interface {
	Report(prop, clause, sig, msg string)
}

// EnvReporter reports only the violations of the env's own property.
type EnvReporter struct{ E *core.Env }

func (r EnvReporter) Report(prop, clause, sig, msg string) {
	if prop == r.E.Property {
		r.E.Violate(clause, sig, "%s", msg)
	}
}

// PerReplicaReporter reports every cycle-oracle violation under another property
// (C19: "every per-replica guarantee holds for each replica on its own").
type PerReplicaReporter struct{ E *core.Env }

func (r PerReplicaReporter) Report(prop, clause, sig, msg string) {
	r.E.Violate("per-replica", prop+"/"+clause, "with several replicas, %s of %s is violated: %s", clause, prop, msg)
}

// Check runs the selected oracles over every replica of the trace.
func Check(tr *CycleTrace, w Which, r Reporter) {
	for _, rep := range tr.Replicas {
		if rep.ListErr {
			continue
		}
		if w.C01 {
			checkC01(tr, rep, r)
		}
		if w.C04 {
			checkC04(tr, rep, r)
		}
		if w.C05 {
			checkC05(tr, rep, r)
		}
		if w.C07 {
			checkC07(tr, rep, r)
		}
		if w.C08 {
			checkC08(tr, rep, r)
		}
	}
}

// ------------------------------------------------------------------ C01

func copyStates(rep *ReplicaTrace, h uint64, inSyncOnly bool) string {
	set := map[string]bool{}
	for _, s := range rep.Shards {
		if inSyncOnly && !s.InSync {
			continue
		}
		if s.Rep == nil {
			continue
		}
		if st, ok := s.Rep[h]; ok {
			set[stateName(st.TargetState)] = true
		}
	}
	var l []string
	for k := range set {
		l = append(l, k)
	}
	sort.Strings(l)
	return strings.Join(l, "+")
}

func checkC01(tr *CycleTrace, rep *ReplicaTrace, r Reporter) {
	// a shard the cycle itself asks to be removed (ordinal >= the accepted shard count request) is no shard
	// of the replica after the cycle. Not judged when the count exceeds max-shard (the clamp to
	// max-shard removes shards whatever they hold; C07 excludes that case too).
	remaining := len(rep.Shards)
	if int32(len(rep.Shards)) <= tr.Opt.MaxShard {
		for _, x := range rep.Scale {
			if !x.Err {
				remaining = int(x.Value)
			}
		}
	}
	// (a) no orphan
	for _, h := range sortedHashes(tr.Active) {
		held := false
		for _, s := range rep.Shards {
			if s.InSync {
				if _, ok := s.Rep[h]; ok {
					held = true
				}
			}
		}
		if !held {
			continue
		}
		kept, keptButRemoved := false, false
		for i, s := range rep.Shards {
			if s.InSync {
				if _, ok := s.After()[h]; ok {
					if i >= remaining {
						keptButRemoved = true
						continue
					}
					kept = true
				}
			}
		}
		if !kept && keptButRemoved {
			r.Report("C01", "orphan-by-scale-request", "",
				fmt.Sprintf("replica %s: active target %d was reported by an in-sync shard; after the cycle it is only in the list of shards that the cycle's own request for %d shards removes", rep.ID, h, remaining))
		} else if !kept {
			r.Report("C01", "orphan", "copies="+copyStates(rep, h, true),
				fmt.Sprintf("replica %s: active target %d was reported by an in-sync shard but is in no in-sync shard's list after the cycle", rep.ID, h))
		}
	}
	// (b) justified removal
	for _, s := range rep.Shards {
		if !s.InSync || s.Post == nil || !s.PostDelivered {
			continue
		}
		for _, h := range sortedHashes(s.Rep) {
			if _, still := s.Post[h]; still {
				continue
			}
			if _, act := tr.Active[h]; !act {
				continue
			}
			other := false
			for _, o := range rep.Shards {
				if o != s && o.InSync {
					if _, ok := o.Rep[h]; ok {
						other = true
					}
				}
			}
			if !other {
				r.Report("C01", "unjustified-removal", "state="+stateName(s.Rep[h].TargetState),
					fmt.Sprintf("replica %s: active target %d removed from %s although no other in-sync shard reports it", rep.ID, h, s.ID))
			}
		}
	}
	// (b') the same, judged on what the harness knows the shard really scrapes: a shard whose status
	// request was not answered in this cycle reports nothing - the targets it scrapes must not be taken
	// away from it on the strength of that (only applies where the harness knows the truth)
	for _, s := range rep.Shards {
		if s.Truth == nil || s.Post == nil || !s.PostDelivered || s.StatusOK {
			continue
		}
		for _, h := range sortedHashes(s.Truth) {
			if _, still := s.Post[h]; still {
				continue
			}
			if _, act := tr.Active[h]; !act {
				continue
			}
			other := false
			for _, o := range rep.Shards {
				if o != s && o.InSync {
					if _, ok := o.Rep[h]; ok {
						other = true
					}
				}
			}
			if !other {
				r.Report("C01", "unjustified-removal", "state=unreported",
					fmt.Sprintf("replica %s: %s did not answer its status request in this cycle, yet it was sent a target list without active target %d, which it scrapes and no other in-sync shard reports", rep.ID, s.ID, h))
			}
		}
	}
	if tr.Deadlock {
		r.Report("C01", "deadlock", "", "the cycle did not finish: coordinator goroutine blocked with no request in flight")
	}
}

// ------------------------------------------------------------------ C04

func oversized(o Options, e *ExpRes) bool {
	return (o.MaxHeadSeries != 0 && e.Series > o.MaxHeadSeries) || e.Total > o.MaxProcessSeries
}

// reported: some reachable shard of the replica reports h.
func reported(rep *ReplicaTrace, h uint64) bool {
	for _, s := range rep.Shards {
		if s.Rep != nil {
			if _, ok := s.Rep[h]; ok {
				return true
			}
		}
	}
	return false
}

func placedAnywhere(rep *ReplicaTrace, h uint64) bool {
	for _, s := range rep.Shards {
		if s.Post != nil {
			if _, ok := s.Post[h]; ok {
				return true
			}
		}
	}
	return false
}

// pathClass: first assignment (nobody reports the target) or a move.
func pathClass(tr *CycleTrace, rep *ReplicaTrace, d int, h uint64) string {
	if !reported(rep, h) {
		return "first-assignment"
	}
	return "move"
}

func checkC04(tr *CycleTrace, rep *ReplicaTrace, r Reporter) {
	o := tr.Opt
	for di, d := range rep.Shards {
		if !d.InSync || d.Post == nil {
			continue
		}
		rt := d.LastRT()
		var sumS, sumT int64
		var newH []uint64
		for _, h := range sortedHashes(d.Post) {
			if _, had := d.Rep[h]; had {
				continue
			}
			// candidate weights: every other shard's report, else the explorer
			var ws, wt int64 = -1, -1
			for _, s := range rep.Shards {
				if s == d || s.Rep == nil {
					continue
				}
				if st, ok := s.Rep[h]; ok {
					if ws < 0 || st.Series < ws {
						ws = st.Series
					}
					if wt < 0 || st.TotalSeries < wt {
						wt = st.TotalSeries
					}
				}
			}
			if ws < 0 {
				e := tr.Explore[h]
				if e == nil {
					continue // weight unknown to the oracle: not asserted
				}
				ws, wt = e.Series, e.Total
			}
			sumS += ws
			sumT += wt
			newH = append(newH, h)
		}
		if len(newH) == 0 {
			continue
		}
		path := pathClass(tr, rep, di, newH[0])
		if o.MaxHeadSeries != 0 && rt.HeadSeries+sumS >= o.MaxHeadSeries {
			r.Report("C04", "over-limit", "limit=head,path="+path,
				fmt.Sprintf("replica %s: %s reported head series %d and was given targets %v with series %d: not below max-head-series %d", rep.ID, d.ID, rt.HeadSeries, newH, sumS, o.MaxHeadSeries))
		}
		if rt.ProcessSeries+sumT >= o.MaxProcessSeries {
			hl := "head-limit-set"
			if o.MaxHeadSeries == 0 {
				hl = "no-head-limit"
			}
			r.Report("C04", "over-limit", "limit=process,path="+path+","+hl,
				fmt.Sprintf("replica %s: %s reported process series %d and was given targets %v with total series %d: not below max-process-series %d", rep.ID, d.ID, rt.ProcessSeries, newH, sumT, o.MaxProcessSeries))
		}
	}
	// (b1) an unscraped oversized target is never assigned
	allSync := true
	for _, s := range rep.Shards {
		if !s.InSync {
			allSync = false
		}
	}
	overs, placeable := 0, 0
	for _, h := range sortedHashes(tr.Active) {
		if reported(rep, h) {
			continue
		}
		e := tr.Explore[h]
		if e == nil || e.Health != "up" {
			continue
		}
		if !oversized(o, e) {
			placeable++
			continue
		}
		overs++
		if placedAnywhere(rep, h) {
			which := "process"
			if o.MaxHeadSeries != 0 && e.Series > o.MaxHeadSeries {
				which = "head"
			}
			r.Report("C04", "oversized-assigned", "limit="+which,
				fmt.Sprintf("replica %s: target %d (series %d, total %d) alone exceeds a limit (head %d, process %d) but was assigned", rep.ID, h, e.Series, e.Total, o.MaxHeadSeries, o.MaxProcessSeries))
		}
	}
	// (b3) a target that is already scraped and alone exceeds a limit never causes a scale-up:
	// all shards in sync, nothing unscraped is waiting, and without the oversized targets no
	// shard is above half of a limit
	if allSync && len(rep.Shards) > 0 {
		waiting, heldOver := 0, 0
		for _, h := range sortedHashes(tr.Active) {
			if !reported(rep, h) {
				if e := tr.Explore[h]; e == nil || e.Health != "unknown" {
					waiting++ // anything the coordinator might try to place
				}
			}
		}
		// calm: relief cannot be asking for space on behalf of an ordinary target: every shard
		// is either below both limits, or everything it holds besides the oversized targets is
		// not movable anyway (not healthy, fewer than 3 scrapes)
		calm := true
		for _, s := range rep.Shards {
			rt := s.LastRT()
			below := rt.ProcessSeries < o.MaxProcessSeries && (o.MaxHeadSeries == 0 || rt.HeadSeries < o.MaxHeadSeries)
			movable := false
			for _, st := range s.Rep {
				if (o.MaxHeadSeries != 0 && st.Series > o.MaxHeadSeries) || st.TotalSeries > o.MaxProcessSeries || st.Series > o.MaxProcessSeries {
					heldOver++
					continue
				}
				// (an in_transfer copy may be called off and become movable in the same cycle)
				if string(st.Health) == "up" && st.ScrapeTimes >= 3 {
					movable = true
				}
			}
			if !below && movable {
				calm = false
			}
		}
		if waiting == 0 && heldOver > 0 && calm {
			count := int32(len(rep.Shards))
			lim := count
			if o.MinShard > lim {
				lim = o.MinShard
			}
			for _, sc := range rep.Scale {
				if sc.Value > lim {
					r.Report("C04", "oversized-scale-up", "exceeds=held-target",
						fmt.Sprintf("replica %s: %d shards, nothing is waiting to be placed and without the targets that alone exceed a limit no shard is above half of a limit, but %d shards were requested", rep.ID, count, sc.Value))
					break
				}
			}
		}
	}
	// (b2) ... and never causes a scale-up
	if overs > 0 && placeable == 0 && allSync && len(rep.Shards) > 0 {
		quiet := o.DisableAlleviate
		if !quiet {
			quiet = true
			for _, s := range rep.Shards {
				rt := s.LastRT()
				if rt.ProcessSeries*2 > o.MaxProcessSeries || (o.MaxHeadSeries != 0 && rt.HeadSeries*2 > o.MaxHeadSeries) {
					quiet = false
				}
			}
		}
		if quiet {
			count := int32(len(rep.Shards))
			lim := count
			if o.MinShard > lim {
				lim = o.MinShard
			}
			for _, sc := range rep.Scale {
				if sc.Value > lim {
					kind := "total-only"
					for _, h := range sortedHashes(tr.Active) {
						if e := tr.Explore[h]; e != nil && !reported(rep, h) && e.Health == "up" && oversized(o, e) {
							if (o.MaxHeadSeries != 0 && e.Series > o.MaxHeadSeries) || e.Series > o.MaxProcessSeries {
								kind = "mixed"
							}
						}
					}
					r.Report("C04", "oversized-scale-up", "exceeds="+kind,
						fmt.Sprintf("replica %s: %d shards, nothing placeable is waiting and no shard needs relief, but %d shards were requested because of a target that alone exceeds a limit", rep.ID, count, sc.Value))
					break
				}
			}
		}
	}
}

// ------------------------------------------------------------------ C05

func checkC05(tr *CycleTrace, rep *ReplicaTrace, r Reporter) {
	for si, s := range rep.Shards {
		if !s.InSync || s.Post == nil {
			continue
		}
		for _, h := range sortedHashes(s.Post) {
			pt := s.Post[h]
			old, had := s.Rep[h]
			// (a1) newly marked in-transfer => placed in normal state on an in-sync destination
			if had && old.TargetState == "" && pt.TargetState == "in_transfer" {
				ok := false
				// the destination is an in-sync shard that holds h in normal state
				// after the cycle (newly sent, or flipped back, or already a
				// normal duplicate that now simply takes over)
				for di, d := range rep.Shards {
					if di == si || !d.InSync {
						continue
					}
					if st, in := d.Planned()[h]; in && st == "" {
						ok = true
					}
				}
				if !ok {
					r.Report("C05", "mark-without-destination", "",
						fmt.Sprintf("replica %s: target %d newly marked in_transfer on %s but no in-sync shard was sent it in normal state in the same cycle", rep.ID, h, s.ID))
				}
			}
			// (a2) newly placed while reported elsewhere (a move) => a source is in-transfer afterwards
			if !had {
				var holders []*ShardTrace
				for oi, o := range rep.Shards {
					if oi != si && o.InSync {
						if _, ok := o.Rep[h]; ok {
							holders = append(holders, o)
						}
					}
				}
				if len(holders) > 0 {
					ok := false
					for _, o := range holders {
						if o.Planned()[h] == "in_transfer" {
							ok = true
						}
					}
					if !ok {
						r.Report("C05", "move-without-mark", "dest-state="+stateName(pt.TargetState),
							fmt.Sprintf("replica %s: target %d newly placed on %s while in-sync shards report it, but none of them has it in_transfer after the cycle", rep.ID, h, s.ID))
					}
				}
			}
		}
		// (b) hand-over rule
		for _, h := range sortedHashes(s.Rep) {
			st := s.Rep[h]
			if st.TargetState != "in_transfer" {
				continue
			}
			if _, act := tr.Active[h]; !act {
				continue
			}
			if _, still := s.Post[h]; still {
				continue
			}
			best := "none"
			ok := false
			for di, d := range rep.Shards {
				if di == si || !d.InSync {
					continue
				}
				if ds, in := d.Rep[h]; in {
					c := timesClass(ds.ScrapeTimes)
					if best == "none" || c == ">=3" || (c == "1-2" && best == "0") {
						best = c
					}
					if ds.ScrapeTimes >= 3 {
						ok = true
					}
				}
			}
			if st.ScrapeTimes < 3 || !ok {
				r.Report("C05", "early-handover", fmt.Sprintf("source-scrapes=%s,dest-scrapes=%s", timesClass(st.ScrapeTimes), best),
					fmt.Sprintf("replica %s: in_transfer copy of target %d dropped from %s with %d scrapes on the source; best other in-sync holder scrape class %s (README: both at least 3)", rep.ID, h, s.ID, st.ScrapeTimes, best))
			}
		}
	}
}

// ------------------------------------------------------------------ C07

func checkC07(tr *CycleTrace, rep *ReplicaTrace, r Reporter) {
	o := tr.Opt
	count := int32(len(rep.Shards))
	// eligible unscraped target left unplaced?
	needSpace := false
	for _, h := range sortedHashes(tr.Active) {
		if reported(rep, h) {
			continue
		}
		e := tr.Explore[h]
		if e == nil || e.Health != "up" || oversized(o, e) {
			continue
		}
		// equality with a limit is not asserted on
		if (o.MaxHeadSeries != 0 && e.Series >= o.MaxHeadSeries) || e.Total >= o.MaxProcessSeries || e.Series >= o.MaxProcessSeries {
			continue
		}
		if !placedAnywhere(rep, h) {
			needSpace = true
		}
	}
	for k, sc := range rep.Scale {
		when := "final"
		if k+1 < len(rep.Scale) || sc.Seq < rep.LastSeq {
			when = "early"
		}
		x := sc.Value
		if o.MinShard <= o.MaxShard && (x < o.MinShard || x > o.MaxShard) {
			r.Report("C07", "out-of-bounds", "when="+when,
				fmt.Sprintf("replica %s: requested %d shards, outside [%d,%d]", rep.ID, x, o.MinShard, o.MaxShard))
		}
		if count > o.MaxShard {
			continue
		}
		// (b) last shard that must stay
		for i := len(rep.Shards) - 1; i >= 0 && int32(i) >= x; i-- {
			s := rep.Shards[i]
			class := ""
			switch {
			case !s.InSync:
				class = "out-of-sync"
			case len(s.Rep) > 0:
				class = "holding"
			case s.Post != nil && len(s.Post) > 0:
				class = "given-this-cycle"
			case s.LastRT().IdleStartAt == nil:
				class = "idle-unset"
			case sc.Now.Sub(*s.LastRT().IdleStartAt) <= o.MaxIdleTime:
				class = "idle-not-expired"
			}
			if class != "" {
				r.Report("C07", "removes-used-shard", "when="+when+",shard="+class,
					fmt.Sprintf("replica %s: %d shards, requested %d, but shard #%d (%s) is %s", rep.ID, count, x, i, s.ID, class))
				break
			}
		}
		// (c)
		if x < count {
			if o.MaxIdleTime == 0 {
				r.Report("C07", "scale-down-disabled", "when="+when,
					fmt.Sprintf("replica %s: max-idle-time is 0 but %d < current %d shards requested", rep.ID, x, count))
			} else if needSpace {
				r.Report("C07", "scale-down-while-space-needed", "when="+when,
					fmt.Sprintf("replica %s: an eligible unscraped target was left unplaced, yet %d < current %d shards requested", rep.ID, x, count))
			}
		}
	}
}

// ------------------------------------------------------------------ C08

func checkC08(tr *CycleTrace, rep *ReplicaTrace, r Reporter) {
	// an out-of-sync shard is never chosen as destination: a target newly marked
	// in_transfer must have an in-sync shard that holds it in normal state afterwards
	anyUnsynced := false
	for _, s := range rep.Shards {
		if !s.InSync {
			anyUnsynced = true
		}
	}
	if anyUnsynced {
		for si, s := range rep.Shards {
			if !s.InSync || s.Post == nil {
				continue
			}
			for _, h := range sortedHashes(s.Post) {
				old, had := s.Rep[h]
				if !had || old.TargetState != "" || s.Post[h].TargetState != "in_transfer" {
					continue
				}
				ok := false
				for di, d := range rep.Shards {
					if di != si && d.InSync {
						if st, in := d.Planned()[h]; in && st == "" {
							ok = true
						}
					}
				}
				if !ok {
					r.Report("C08", "transfer-to-unsynced-shard", "",
						fmt.Sprintf("replica %s: target %d was marked in_transfer on %s but no in-sync shard receives it; a shard that is not in sync must have been chosen as destination", rep.ID, h, s.ID))
				}
			}
		}
	}
	scaleErr := false // a failed scale request legitimately ends this replica's cycle early
	for _, sc := range rep.Scale {
		if sc.Err {
			scaleErr = true
		}
	}
	for _, s := range rep.Shards {
		hc := s.HealthClass(tr.CoordHash)
		if !s.InSync {
			if s.Post != nil {
				r.Report("C08", "update-to-unsynced", "shard="+hc+",request=targets",
					fmt.Sprintf("replica %s: shard %s (%s) was sent a target update", rep.ID, s.ID, hc))
			}
			if s.ExtraSeen {
				r.Report("C08", "update-to-unsynced", "shard="+hc+",request=extra_config",
					fmt.Sprintf("replica %s: shard %s (%s) was sent an extra-config update", rep.ID, s.ID, hc))
			}
		} else if s.Post == nil && !s.ExtraSeen && !scaleErr {
			r.Report("C08", "synced-shard-ignored", "",
				fmt.Sprintf("replica %s: shard %s is ready, answered and reports the coordinator's hash but received no update request", rep.ID, s.ID))
		}
		if !s.Ready && len(s.Calls) > 0 {
			r.Report("C08", "request-to-unready", "",
				fmt.Sprintf("replica %s: shard %s is not ready but received %d requests", rep.ID, s.ID, len(s.Calls)))
		}
		// reachable with a different hash: raw config first, then re-read
		if len(s.RT) > 0 && s.RT[0].ConfigHash != tr.CoordHash {
			if !s.PushSeen {
				r.Report("C08", "no-config-push", "",
					fmt.Sprintf("replica %s: shard %s reported hash %q (coordinator %q) but was not sent the raw configuration", rep.ID, s.ID, s.RT[0].ConfigHash, tr.CoordHash))
			} else {
				if s.PushBody != tr.Raw {
					r.Report("C08", "wrong-config-pushed", "",
						fmt.Sprintf("replica %s: shard %s was sent a configuration that is not the coordinator's current raw content", rep.ID, s.ID))
				}
				if s.FirstPostSeq != 0 && s.FirstPostSeq < s.PushSeq {
					r.Report("C08", "update-before-push", "",
						fmt.Sprintf("replica %s: shard %s received another update before the configuration push", rep.ID, s.ID))
				}
				if s.PushOK {
					reread := false
					for _, c := range s.Calls {
						if c.Seq > s.PushSeq && c.Method == "GET" && normPath(c.Path) == "/api/v1/shard/runtimeinfo" {
							reread = true
						}
					}
					if !reread {
						r.Report("C08", "no-reread-after-push", "",
							fmt.Sprintf("replica %s: shard %s accepted the pushed configuration but its runtime info was not read again", rep.ID, s.ID))
					}
				}
			}
		} else if s.PushSeen {
			r.Report("C08", "needless-config-push", "",
				fmt.Sprintf("replica %s: shard %s was sent the raw configuration although it did not report a different hash", rep.ID, s.ID))
		}
		// targets reported by a reachable, not-in-sync shard are not assigned elsewhere.
		// For a reachable shard whose hash differs (both of its GETs answer) the harness'
		// knowledge of what it scrapes is used even if the coordinator never asked for it.
		held := s.Rep
		if !s.InSync && held == nil && s.Truth != nil && s.StatusWouldAnswer && len(s.RT) > 0 && s.RT[0].ConfigHash != tr.CoordHash {
			held = map[uint64]*target.ScrapeStatus{}
			for h, st := range s.Truth {
				held[h] = &target.ScrapeStatus{TargetState: st}
			}
		}
		if !s.InSync && held != nil {
			for _, h := range sortedHashes(held) {
				for _, d := range rep.Shards {
					if d == s || !d.InSync || d.Post == nil {
						continue
					}
					if _, in := d.Post[h]; !in {
						continue
					}
					if _, had := d.Rep[h]; had {
						continue
					}
					// legitimate if an in-sync holder is marked in_transfer (a move among others)
					legit := false
					for _, o := range rep.Shards {
						if o != s && o != d && o.InSync {
							if _, ok := o.Rep[h]; ok && o.Planned()[h] == "in_transfer" {
								legit = true
							}
						}
					}
					if !legit {
						r.Report("C08", "second-assignment", "shard="+hc,
							fmt.Sprintf("replica %s: target %d is reported by %s (%s) yet was newly assigned to %s", rep.ID, h, s.ID, hc, d.ID))
					}
				}
			}
		}
	}
}
