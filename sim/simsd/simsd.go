// Package simsd is a service-discovery mechanism for the real Prometheus
// discovery manager (the one cmd/kvass/coordinator.go creates) whose results
// the simulator decides: a job configured with
//
//	sim_sd_configs:
//	- name: ja
//
// discovers whatever the harness last Set for "ja". It is registered like any
// Prometheus SD plug-in (discovery.RegisterConfig) and exists only in the simulator binary.
package simsd

import (
	"context"
	"sync"

	"github.com/prometheus/prometheus/discovery"
	"github.com/prometheus/prometheus/discovery/targetgroup"
)

func init() { discovery.RegisterConfig(&SDConfig{}) }

// SDConfig is the YAML form.
type SDConfig struct {
	Job string `yaml:"name"`
}

func (*SDConfig) Name() string { return "sim" }

func (c *SDConfig) NewDiscoverer(discovery.DiscovererOptions) (discovery.Discoverer, error) {
	return &disc{job: c.Job}, nil
}

type sub struct {
	ctx context.Context
	ch  chan<- []*targetgroup.Group
}

var (
	mu    sync.Mutex
	state = map[string][]*targetgroup.Group{}
	subs  = map[string][]*sub{}
)

type disc struct{ job string }

// Run sends the current groups at once (as every discoverer must) and then whatever Set provides.
func (d *disc) Run(ctx context.Context, up chan<- []*targetgroup.Group) {
	s := &sub{ctx: ctx, ch: up}
	mu.Lock()
	cur := state[d.job]
	subs[d.job] = append(subs[d.job], s)
	mu.Unlock()
	send(s, cur)
	<-ctx.Done()
	mu.Lock()
	l := subs[d.job]
	for i, x := range l {
		if x == s {
			subs[d.job] = append(l[:i:i], l[i+1:]...)
			break
		}
	}
	mu.Unlock()
}

func send(s *sub, g []*targetgroup.Group) {
	if g == nil {
		g = []*targetgroup.Group{}
	}
	select {
	case s.ch <- g:
	case <-s.ctx.Done():
	}
}

// Set replaces what job discovers and tells every running discoverer of that job.
// It blocks until the discovery manager has taken the update.
func Set(job string, groups []*targetgroup.Group) {
	mu.Lock()
	state[job] = groups
	l := append([]*sub{}, subs[job]...)
	mu.Unlock()
	for _, s := range l {
		send(s, groups)
	}
}

// Reset forgets everything (between runs).
func Reset() {
	mu.Lock()
	state = map[string][]*targetgroup.Group{}
	subs = map[string][]*sub{}
	mu.Unlock()
}
