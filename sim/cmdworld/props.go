package cmdworld

import (
	"fmt"

	"kvassverif/core"
)

func extend(sp *core.Spec) {
	sp.Real = append(sp.Real, "cmdworld runs: the command body of cmd/kvass/coordinator.go (Prometheus discovery.Manager, TargetsDiscovery, Explore, ConfigManager, Coordinator, coordinator.Service, static shard manager) and one cmd/kvass/sidecar.go command body per shard")
	sp.Stub = append(sp.Stub, "cmdworld runs: service discovery mechanism (a registered SD plug-in whose results the simulator decides), Prometheus per shard, scrape targets, network, the listening sockets")
	sp.SchedLabels = append(sp.SchedLabels, "cmd_release", "cmd_event_kind", "cmd_event_at", "cmd_lose_after")
}

func init() {
	note := "; every 7th run is a closed loop of the real commands themselves - the command body of `kvass coordinator` (cmd/kvass/coordinator.go: real Prometheus discovery manager fed by a simulated SD mechanism, target discovery, explorer, configuration manager, coordinator loop, API; static shard list) and one `kvass sidecar` command body per shard - with drawn discovery changes, health flips, configuration reloads through the coordinator's API%s, judged end to end: the C03 end state on the sidecars' own status answers and Prometheus stubs within 80 fault-free cycles, and the coordinator API's active-target list"
	if sp, err := core.Lookup("C03"); err == nil {
		sp.Extra = func(tp *core.Tape, e *core.Env) { Run(tp, e, false) }
		sp.ExtraEvery = 7
		sp.Rule += sprintf(note, "")
		extend(sp)
	}
	if sp, err := core.Lookup("C17"); err == nil {
		sp.Extra = func(tp *core.Tape, e *core.Env) { Run(tp, e, false) }
		sp.ExtraEvery = 37
		extend(sp)
		sp.TapeCap = 400000
		sp.Rule += "; every 37th run is a closed loop of the real commands (the command body of `kvass coordinator` with the real Prometheus discovery manager fed by a simulated SD mechanism, its forwarding loop and callback chain as wired in cmd/kvass/coordinator.go, plus real sidecar commands): after the last discovery change / reload the coordinator API's active-target list must be exactly what discovery and the loaded relabel rules say, and the explorer must have probed every discovered target"
	}
	if sp, err := core.Lookup("C20"); err == nil {
		sp.Extra = func(tp *core.Tape, e *core.Env) { Run(tp, e, false) }
		sp.ExtraEvery = 37
		extend(sp)
		sp.TapeCap = 400000
		sp.Rule += "; every 37th run is a closed loop of the real commands (kvass coordinator command body with its explorer started and wired as in cmd/kvass/coordinator.go, real sidecar commands): every discovered target that no shard holds has been probed, a target failing since the start is probed again (retry), never two probes at once"
	}
	if sp, err := core.Lookup("C06"); err == nil {
		sp.Extra = func(tp *core.Tape, e *core.Env) { Run(tp, e, true) }
		sp.ExtraEvery = 7
		sp.Rule += sprintf(note, ", sidecar restarts, coordinator restarts, lost target updates and unreachable shards")
		extend(sp)
	}
}

func sprintf(f string, a ...interface{}) string { return fmt.Sprintf(f, a...) }
