// Package cmdworld is a closed loop made of the real commands: one `kvass coordinator`
// (cmd/kvass/coordinator.go: its own wiring of discovery manager, target discovery,
// explorer, configuration manager, coordinator and API; shard type "static") and one
// `kvass sidecar` per shard (cmd/kvass/sidecar.go), all running their real command bodies
// on the fake clock inside one bubble. Prometheus' discovery manager is the real one; what
// it discovers is decided by the simulator through the sim SD mechanism. Nothing between
// the components is interposed, so the oracles are end-to-end: the C03/C06 end state on the
// sidecars, and the coordinator's own API.
package cmdworld

import (
	"encoding/json"
	"fmt"
	"math/rand"
	"net/http"
	"net/http/httptest"
	"os"
	"path/filepath"
	"sort"
	"strings"
	"testing/synctest"
	"time"

	"github.com/prometheus/common/model"
	"github.com/prometheus/prometheus/discovery/targetgroup"

	"kvassverif/core"
	"kvassverif/disco"
	"kvassverif/sched"
	"kvassverif/sidecarsim"
	"kvassverif/simnet"
	"kvassverif/simsd"
	"kvassverif/world"

	"tkestack.io/kvass/pkg/verifhook"
)

type tgt struct {
	Addr    string
	Job     string
	Kept    int
	Total   int
	Healthy bool
	InSD    bool
}

type event struct {
	At   int // seconds into the run
	Kind string
	Idx  int
	Dur  int
}

type scen struct {
	Shards  int
	Limit   int64
	Head    int64
	Jobs    []string
	Targets []*tgt
	Events  []event
	Work    int // seconds
	Faults  bool
}

var eventKinds = []string{"add_target", "remove_target", "flip_health", "config_rev", "restart_sidecar", "restart_coordinator", "lose_post", "shard_down"}

func gen(tp *core.Tape, faults bool) *scen {
	sc := &scen{Shards: 1 + tp.Choose("cmd_shards", 3), Limit: core.Pick(tp, "cmd_limit", int64(300), 1000), Faults: faults}
	if tp.Bool("cmd_head_limit", 1, 3) {
		sc.Head = sc.Limit
	}
	sc.Jobs = []string{"ja"}
	if tp.Bool("cmd_two_jobs", 1, 2) {
		sc.Jobs = append(sc.Jobs, "jb")
	}
	n := 2 + tp.Choose("cmd_targets", 6)
	budget := int(sc.Limit) * sc.Shards / 2
	per := budget / n
	if per > int(sc.Limit)/3 {
		per = int(sc.Limit) / 3
	}
	for i := 0; i < n; i++ {
		total := 6 + tp.Choose("cmd_size", per-5)
		t := &tgt{Addr: fmt.Sprintf("10.1.0.%d:9100", i+1), Job: sc.Jobs[tp.Choose("cmd_job", len(sc.Jobs))], Total: total, Kept: total - tp.Choose("cmd_dropped", total/3+1),
			Healthy: !tp.Bool("cmd_unhealthy", 1, 6), InSD: tp.Bool("cmd_initial", 3, 4)}
		sc.Targets = append(sc.Targets, t)
	}
	sc.Work = 40 + 20*tp.Choose("cmd_work", 6)
	ne := tp.Choose("cmd_events", 9)
	for i := 0; i < ne; i++ {
		k := eventKinds[tp.Choose("cmd_event_kind", len(eventKinds))]
		if !faults && (k == "restart_sidecar" || k == "restart_coordinator" || k == "lose_post" || k == "shard_down") {
			k = eventKinds[tp.Choose("cmd_event_kind_nofault", 4)]
		}
		sc.Events = append(sc.Events, event{At: 5 + tp.Choose("cmd_event_at", sc.Work), Kind: k, Idx: tp.Choose("cmd_event_idx", 64), Dur: 5 + tp.Choose("cmd_event_dur", 30)})
	}
	sort.SliceStable(sc.Events, func(a, b int) bool { return sc.Events[a].At < sc.Events[b].At })
	return sc
}

func (sc *scen) configText(rev int) string {
	var b strings.Builder
	b.WriteString("global:\n  scrape_interval: 5s\n  scrape_timeout: 3s\n  external_labels:\n    cluster: sim\nscrape_configs:\n")
	for _, j := range sc.Jobs {
		fmt.Fprintf(&b, "- job_name: %s\n  sim_sd_configs:\n  - name: %s\n  relabel_configs:\n  - target_label: rev\n    replacement: r%d\n  metric_relabel_configs:\n  - source_labels: [__name__]\n    regex: drop_.*\n    action: drop\n", j, j, rev)
	}
	return b.String()
}

func payload(t *tgt) []byte {
	var b strings.Builder
	for i := 0; i < t.Kept; i++ {
		fmt.Fprintf(&b, "m_%d 1\n", i)
	}
	for i := t.Kept; i < t.Total; i++ {
		fmt.Fprintf(&b, "drop_%d 1\n", i)
	}
	return []byte(b.String())
}

func keptOf(body []byte) int {
	n := 0
	for _, ln := range strings.Split(string(body), "\n") {
		if ln != "" && !strings.HasPrefix(ln, "drop_") {
			n++
		}
	}
	return n
}

type shardProc struct {
	Name      string
	IP        string
	Dir       string
	SC        *sidecarsim.Sidecar
	Prom      *world.PromStub
	DownUntil time.Time
}

type run struct {
	e                   *core.Env
	tp                  *core.Tape
	sc                  *scen
	net                 *simnet.Net
	tg                  *sidecarsim.Targets
	pn                  *disco.ProbeNet
	sh                  []*shardProc
	co                  *sidecarsim.Coordinator
	copt                sidecarsim.CoordOptions
	start               time.Time
	rev                 int
	cfg                 string
	lose                int // POSTs of target lists still to lose
	seedBase, cycleSeed int64
	flipped             map[string]bool // targets whose health changed during the run
	probesAtStart       int
	stuck               []string
}

func (r *run) logf(f string, a ...interface{}) {
	if trace {
		r.e.Logf("t=%s %s", time.Since(r.start), fmt.Sprintf(f, a...))
		return
	}
	r.e.Logf("t=%s %s", time.Since(r.start).Round(time.Millisecond), fmt.Sprintf(f, a...))
}

func (r *run) sendSD() {
	for _, j := range r.sc.Jobs {
		g := &targetgroup.Group{Source: j + "/0"}
		for _, t := range r.sc.Targets {
			if t.InSD && t.Job == j {
				g.Targets = append(g.Targets, model.LabelSet{model.AddressLabel: model.LabelValue(t.Addr)})
			}
		}
		simsd.Set(j, []*targetgroup.Group{g})
	}
}

func (r *run) applySpec(t *tgt) {
	spec := &sidecarsim.TargetSpec{Payload: payload(t)}
	if !t.Healthy {
		spec.Fail = "connect"
	}
	r.tg.Set(t.Addr, spec)
}

func (r *run) startShard(p *shardProc) error {
	opt := sidecarsim.Options{Dir: p.Dir, Targets: r.tg, PromHost: p.IP + ":9090"}
	var sc *sidecarsim.Sidecar
	if p.SC != nil {
		sc = p.SC.Restart()
	} else {
		sc = sidecarsim.Start(opt)
	}
	if sc.LoadErr != nil {
		return sc.LoadErr
	}
	prom := p.Prom
	sc.HeadSeries = prom.Head
	sc.OnReload = func() { prom.Reload(sc.OutFile, time.Now()) }
	p.SC = sc
	prom.Reload(sc.OutFile, time.Now())
	r.net.Handle(p.IP+":8080", sc.Service)
	return nil
}

// advance lets fake time pass while keeping the network moving (used while a process stops).
func (r *run) advance() {
	for _, c := range r.net.Pending() {
		r.net.Release(c, simnet.FailBefore)
	}
	for _, p := range r.pn.Pending() {
		r.pn.Release(p, "connect", nil)
	}
	sched.Sleep(6 * time.Second)
	synctest.Wait()
}

// startCoordinator launches the command and lets it load its configuration: the scrape clients it
// builds while doing so are the explorer's (probes park until the loop answers them); clients built
// afterwards belong to the sidecars (scrapes of the simulated targets).
func (r *run) startCoordinator() {
	r.copt.Targets = r.pn
	r.probesAtStart = r.pn.Count()
	r.co = sidecarsim.StartCoordinator(r.copt)
	synctest.Wait()
	sidecarsim.SetClientTransport(r.tg)
}

// releaseProbes answers every parked explorer probe from the target's current behaviour.
func (r *run) releaseProbes() {
	for i := 0; i < 50; i++ {
		synctest.Wait()
		pend := r.pn.Pending()
		if len(pend) == 0 {
			return
		}
		for _, p := range pend {
			var t *tgt
			for _, x := range r.sc.Targets {
				if x.Addr == p.Host {
					t = x
				}
			}
			sched.Sleep(time.Millisecond) // distinct instants: retry timers must not coincide
			if t == nil || !t.Healthy {
				r.pn.Release(p, "connect", nil)
				r.e.Fault("probe_fail")
			} else {
				r.pn.Release(p, "", payload(t))
			}
			synctest.Wait()
		}
	}
}

// Run executes one closed loop of real commands.
func Run(tp *core.Tape, e *core.Env, faults bool) {
	sc := gen(tp, faults)
	problem := sidecarsim.InBubble(e.T, func() { runBubble(tp, e, sc) })
	if problem != "" {
		e.Undecided("cmdworld: %s", problem)
	}
}

func runBubble(tp *core.Tape, e *core.Env, sc *scen) {
	r := &run{e: e, tp: tp, sc: sc, start: time.Now(), net: simnet.New(), tg: sidecarsim.NewTargets(), pn: &disco.ProbeNet{}}
	base := filepath.Join(e.Scratch, fmt.Sprintf("cmdworld-%d", e.RunIndex))
	_ = os.RemoveAll(base)
	if err := os.MkdirAll(base, 0o755); err != nil {
		e.Undecided("%v", err)
		return
	}
	defer os.RemoveAll(base)
	oldT := http.DefaultTransport
	http.DefaultTransport = &sidecarsim.Router{Next: r.net}
	defer func() { http.DefaultTransport = oldT }()
	simsd.Reset()
	for _, t := range sc.Targets {
		r.applySpec(t)
	}
	// the coordinator's random choices (math/rand) and map iteration orders are drawn, once per run
	r.seedBase = int64(tp.Choose("rand_seed", 1<<16)) << 20
	rand.Seed(r.seedBase)
	verifhook.SetSalt(tp.Salt("map_salt"))
	defer verifhook.SetSalt(0)
	// the static shard list
	var sf strings.Builder
	sf.WriteString("replicas:\n- shards:\n")
	for k := 0; k < sc.Shards; k++ {
		p := &shardProc{Name: fmt.Sprintf("shard-%d", k), IP: fmt.Sprintf("10.9.0.%d", k+1), Dir: filepath.Join(base, fmt.Sprintf("shard-%d", k))}
		_ = os.MkdirAll(p.Dir, 0o755)
		key := p.Name
		p.Prom = world.NewPromStub(true, func(s string) time.Duration {
			h := uint64(1469598103934665603)
			for i := 0; i < len(key+s); i++ {
				h = (h ^ uint64((key + s)[i])) * 1099511628211
			}
			return time.Duration(h%5000) * time.Millisecond
		})
		r.sh = append(r.sh, p)
		fmt.Fprintf(&sf, "  - id: %s\n    url: http://%s:8080\n", p.Name, p.IP)
	}
	static := filepath.Join(base, "static-shards.yaml")
	cfgFile := filepath.Join(base, "prometheus.yml")
	r.cfg = sc.configText(0)
	_ = os.WriteFile(static, []byte(sf.String()), 0o644)
	_ = os.WriteFile(cfgFile, []byte(r.cfg), 0o644)
	for _, p := range r.sh {
		if err := r.startShard(p); err != nil {
			e.Undecided("cmdworld: sidecar command does not start on an empty directory: %v", err)
			return
		}
	}
	r.sendSD()
	r.copt = sidecarsim.CoordOptions{ConfigFile: cfgFile, StaticFile: static, MaxProcess: sc.Limit, MaxHead: sc.Head, Interval: 10 * time.Second,
		InitTimeout: time.Minute, Concurrency: 3}
	r.startCoordinator()
	defer func() {
		if !r.co.Stop(r.advance) {
			e.Undecided("cmdworld: the coordinator command does not stop")
		}
		e.AddSim(time.Since(r.start))
	}()
	e.Key(fmt.Sprintf("cmd:shards=%d", sc.Shards), fmt.Sprintf("targets=%d", len(sc.Targets)/2), fmt.Sprintf("events=%d", len(sc.Events)), fmt.Sprintf("faults=%v", sc.Faults), fmt.Sprintf("head=%v", sc.Head != 0))
	e.Probe("cmdworld_runs")

	evi := 0
	quiet := false
	var quietStart time.Time
	stableChecks := 0
	lastSig := ""
	nextCheck := time.Time{}
	steps := 0
	for {
		steps++
		if steps > 200000 {
			e.Undecided("cmdworld: step cap")
			return
		}
		synctest.Wait()
		if r.co.Exited() {
			e.Violate("cmd-coordinator-exits", "", "the coordinator command ended on its own %s into the run: %s", time.Since(r.start).Round(time.Second), clip(r.co.Err, 1500))
			return
		}
		now := time.Now()
		// 1. requests in flight: release one
		if pend := r.net.Pending(); len(pend) > 0 {
			c := pend[tp.Choose("cmd_release", len(pend))]
			v := simnet.Deliver
			var p *shardProc
			for _, x := range r.sh {
				if x.IP+":8080" == c.Host {
					p = x
				}
			}
			switch {
			case p == nil:
				v = simnet.FailBefore
			case now.Before(p.DownUntil):
				v = simnet.FailBefore
				e.Fault("shard_unreachable")
			case r.lose > 0 && c.Method == "POST" && strings.Contains(c.Path, "/shard/targets"):
				r.lose--
				if tp.Bool("cmd_lose_after", 1, 2) {
					v = simnet.LoseResponse
					e.Fault("post_lost_after")
				} else {
					v = simnet.FailBefore
					e.Fault("post_lost_before")
				}
				r.logf("fault: POST targets to %s lost", p.Name)
			}
			if trace {
				r.logf("release %s %s %s -> %v (of %d)", c.Method, c.Host, c.Path, v, len(pend))
			}
			if c.Method == "GET" && strings.HasSuffix(c.Path, "/targets/status/") {
				// a cycle is reading its shards: its random choices come after this point
				r.cycleSeed++
				rand.Seed(r.seedBase + r.cycleSeed)
			}
			r.net.Release(c, v)
			continue
		}
		// 2. workload and faults
		for !quiet && evi < len(sc.Events) && !r.start.Add(time.Duration(sc.Events[evi].At)*time.Second).After(now) {
			if !r.apply(sc.Events[evi]) {
				return
			}
			evi++
		}
		if !quiet && evi >= len(sc.Events) && now.Sub(r.start) >= time.Duration(sc.Work)*time.Second {
			quiet = true
			quietStart = now
			nextCheck = now.Add(10 * time.Second)
			r.lose = 0
			for _, p := range r.sh {
				p.DownUntil = time.Time{}
			}
			r.logf("quiet phase begins")
		}
		r.releaseProbes()
		// 3. Prometheus scrapes what its file says
		for _, p := range r.sh {
			for _, t := range p.Prom.Due(now) {
				p.Prom.ScrapeOne(p.SC, t, now, keptOf)
			}
		}
		// 4. the end state
		if quiet && !now.Before(nextCheck) {
			nextCheck = now.Add(10 * time.Second)
			ok, sig := r.converged()
			if ok && sig == lastSig {
				stableChecks++
			} else {
				stableChecks = 0
			}
			lastSig = sig
			if ok && stableChecks >= 4 {
				e.Probe("cmdworld_converged")
				e.ProbeN("cmdworld_cycles_to_converge", int(now.Sub(quietStart)/(10*time.Second))-4)
				r.checkAPI()
				if e.Property == "C20" {
					r.checkProbes()
				}
				return
			}
			if now.Sub(quietStart) > 80*10*time.Second {
				sort.Strings(r.stuck)
				if e.Property == "C17" {
					r.checkAPI() // C17 is about what is discovered and tracked, not about placement
					return
				}
				if e.Property == "C20" {
					r.checkProbes()
					return
				}
				e.Violate("cmd-not-converged", stuckClass(r.stuck), "real commands (coordinator + %d sidecars, static shards): 80 fault-free cycles after the last change the end state is not reached: %v", sc.Shards, r.stuck)
				return
			}
		}
		// 5. advance (at most 1 s)
		next := now.Add(time.Second)
		for _, p := range r.sh {
			if d := p.Prom.NextDue(); !d.IsZero() && d.Before(next) && d.After(now) {
				next = d
			}
		}
		if trace {
			r.logf("sleep %s", next.Sub(now))
		}
		sched.Sleep(next.Sub(now))
	}
}

var trace = os.Getenv("KVSIM_TRACE") != ""

func clip(s string, n int) string {
	if len(s) > n {
		return s[:n] + "..."
	}
	return s
}

func stuckClass(st []string) string {
	seen := map[string]bool{}
	var out []string
	for _, s := range st {
		c := s
		if i := strings.Index(s, " "); i > 0 {
			c = s[:i]
		}
		if !seen[c] {
			seen[c] = true
			out = append(out, c)
		}
	}
	sort.Strings(out)
	if len(out) > 2 {
		out = out[:2]
	}
	return strings.Join(out, "+")
}

func (r *run) apply(ev event) bool {
	sc := r.sc
	t := sc.Targets[ev.Idx%len(sc.Targets)]
	p := r.sh[ev.Idx%len(r.sh)]
	switch ev.Kind {
	case "add_target":
		if !t.InSD {
			t.InSD = true
			r.sendSD()
			r.logf("event: %s discovered", t.Addr)
			r.e.Probe("target_added")
		}
	case "remove_target":
		if t.InSD {
			t.InSD = false
			r.sendSD()
			r.logf("event: %s left discovery", t.Addr)
			r.e.Probe("target_removed")
		}
	case "flip_health":
		t.Healthy = !t.Healthy
		if r.flipped == nil {
			r.flipped = map[string]bool{}
		}
		r.flipped[t.Addr] = true
		r.applySpec(t)
		r.logf("event: %s healthy=%v", t.Addr, t.Healthy)
	case "config_rev":
		// the operator edits the file (a relabel rule changes a label of every target, so every hash
		// changes) and asks the coordinator to reload, as with curl -XPOST /-/reload
		if !r.co.Ready() {
			return true
		}
		r.rev++
		r.cfg = sc.configText(r.rev)
		_ = os.WriteFile(r.copt.ConfigFile, []byte(r.cfg), 0o644)
		rr := httptest.NewRecorder()
		sidecarsim.SetClientTransport(r.pn)
		r.co.API.ServeHTTP(rr, httptest.NewRequest("POST", "/-/reload", nil))
		sidecarsim.SetClientTransport(r.tg)
		if rr.Code != 200 {
			r.e.Undecided("cmdworld: coordinator rejects the reload: %d %s", rr.Code, rr.Body.String())
			return false
		}
		r.logf("event: configuration revision %d loaded by the coordinator", r.rev)
		r.e.Probe("config_reloaded")
	case "restart_sidecar":
		if err := r.startShard(p); err != nil {
			r.e.Violate("cmd-sidecar-start-fails", "", "sidecar command of %s does not come back after a restart: %v", p.Name, err)
			return false
		}
		r.logf("fault: %s restarted", p.Name)
		r.e.Fault("sidecar_restart")
	case "restart_coordinator":
		if !r.co.Stop(r.advance) {
			r.e.Undecided("cmdworld: the coordinator command does not stop")
			return false
		}
		r.startCoordinator()
		r.logf("fault: coordinator restarted")
		r.e.Fault("coordinator_restart")
	case "lose_post":
		r.lose++
	case "shard_down":
		p.DownUntil = time.Now().Add(time.Duration(ev.Dur) * time.Second)
		r.logf("fault: %s unreachable for %ds", p.Name, ev.Dur)
	}
	return true
}

// converged: the C03 end state, read from the sidecars' own status answers and their Prometheus stubs.
func (r *run) converged() (bool, string) {
	r.stuck = nil
	holders := map[string]map[string]string{} // addr -> shard -> state
	var sig []string
	for _, p := range r.sh {
		st, err := p.SC.GetStatus()
		if err != nil {
			r.stuck = append(r.stuck, "status-unavailable "+p.Name)
			continue
		}
		n := 0
		for _, h := range sidecarsim.SortedHashes(st) {
			s := st[h]
			a := r.addrOfHash(p, h)
			if holders[a] == nil {
				holders[a] = map[string]string{}
			}
			holders[a][p.Name] = s.TargetState
			sig = append(sig, fmt.Sprintf("%s@%s:%s", a, p.Name, s.TargetState))
			n++
		}
		if len(p.Prom.Targets) != n {
			r.stuck = append(r.stuck, fmt.Sprintf("prometheus-scrapes-other-set %s scrapes %d targets, its sidecar holds %d", p.Name, len(p.Prom.Targets), n))
		}
	}
	for _, t := range r.sc.Targets {
		hs := holders[t.Addr]
		normal, transfer := 0, 0
		for _, s := range hs {
			if s == "" {
				normal++
			} else {
				transfer++
			}
		}
		switch {
		case !t.InSD:
			if normal+transfer > 0 {
				r.stuck = append(r.stuck, "removed-target-still-held "+t.Addr)
			}
		case transfer > 0:
			r.stuck = append(r.stuck, "in-transfer "+t.Addr)
		case normal > 1:
			r.stuck = append(r.stuck, "duplicate "+t.Addr)
		case normal == 0 && t.Healthy:
			r.stuck = append(r.stuck, "unscraped "+t.Addr)
		}
	}
	for a := range holders {
		known := false
		for _, t := range r.sc.Targets {
			if t.Addr == a {
				known = true
			}
		}
		if !known {
			r.stuck = append(r.stuck, "unknown-target-held "+a)
		}
	}
	sort.Strings(sig)
	return len(r.stuck) == 0, strings.Join(sig, " ")
}

// addrOfHash finds the address of an assigned hash in the sidecar's generated file (through its Prometheus stub).
func (r *run) addrOfHash(p *shardProc, h uint64) string {
	needle := fmt.Sprintf("_hash=%d", h)
	for _, t := range p.Prom.Targets {
		if strings.Contains(t.URL, needle+"&") || strings.HasSuffix(t.URL, needle) {
			return t.Host
		}
	}
	return fmt.Sprintf("hash-%d", h)
}

// checkProbes (C20 on the real commands): every discovered target that no shard holds has been probed by the
// running coordinator, and one that has been failing all along is probed again and again (retry), never
// twice at once.
func (r *run) checkProbes() {
	held := map[string]bool{}
	for _, p := range r.sh {
		if st, err := p.SC.GetStatus(); err == nil {
			for h := range st {
				held[r.addrOfHash(p, h)] = true
			}
		}
	}
	probes := map[string][]*disco.Probe{}
	for _, p := range r.pn.Started[r.probesAtStart:] {
		probes[p.Host] = append(probes[p.Host], p)
	}
	for _, t := range r.sc.Targets {
		if !t.InSD || held[t.Addr] {
			continue
		}
		ps := probes[t.Addr]
		if len(ps) == 0 {
			r.e.Violate("cmd-explorer-never-probed", "", "%s is discovered and held by no shard, but the explorer of the running coordinator never probed it", t.Addr)
			return
		}
		if !t.Healthy && !r.flipped[t.Addr] && len(ps) < 2 {
			r.e.Violate("cmd-failed-probe-not-retried", "", "%s has been failing since the start and is still discovered, but it was probed only once", t.Addr)
			return
		}
		// (after a reload that changes a label the same address is a new target for the explorer, and the
		// transport cannot tell the two apart: the one-at-a-time clause is judged on runs without reloads)
		for i := 1; i < len(ps) && r.rev == 0; i++ {
			if !ps[i-1].Done || ps[i].At.Before(ps[i-1].DoneAt) {
				r.e.Violate("cmd-concurrent-probes", "", "%s: a probe started at %s while the previous one (started %s) had not returned", t.Addr, ps[i].At.Sub(r.start), ps[i-1].At.Sub(r.start))
				return
			}
		}
	}
	r.e.Probe("cmdworld_probes_checked")
}

// checkAPI: what the coordinator's own API lists as active is what discovery currently says.
func (r *run) checkAPI() {
	if !r.co.Ready() {
		return
	}
	rr := httptest.NewRecorder()
	r.co.API.ServeHTTP(rr, httptest.NewRequest("GET", "/api/v1/targets?state=active", nil))
	var env struct {
		Status string `json:"status"`
		Data   struct {
			ActiveTargets []struct {
				DiscoveredLabels map[string]string `json:"discoveredLabels"`
				Labels           map[string]string `json:"labels"`
				Health           string            `json:"health"`
			} `json:"activeTargets"`
		} `json:"data"`
	}
	if rr.Code != 200 || json.Unmarshal(rr.Body.Bytes(), &env) != nil || env.Status != "success" {
		r.e.Violate("cmd-api-targets", "unreadable", "GET /api/v1/targets?state=active on the coordinator: %d %s", rr.Code, clip(rr.Body.String(), 300))
		return
	}
	var got, want []string
	for _, t := range env.Data.ActiveTargets {
		a := t.DiscoveredLabels["__address__"]
		if a == "" {
			a = t.Labels["instance"]
		}
		got = append(got, a+" rev="+t.Labels["rev"])
	}
	for _, t := range r.sc.Targets {
		if t.InSD {
			want = append(want, fmt.Sprintf("%s rev=r%d", t.Addr, r.rev))
		}
	}
	sort.Strings(got)
	sort.Strings(want)
	if r.e.Property != "C17" {
		return
	}
	// the explorer follows too: every discovered target has been probed by this coordinator process
	probed := map[string]bool{}
	for _, p := range r.pn.Started[r.probesAtStart:] {
		probed[p.Host] = true
	}
	for _, t := range r.sc.Targets {
		if t.InSD && !probed[t.Addr] {
			r.e.Violate("cmd-explorer-never-probed", "", "%s has been in discovery through %d quiet cycles but the explorer of the running coordinator never probed it", t.Addr, 4)
			return
		}
	}
	if strings.Join(got, ",") != strings.Join(want, ",") {
		r.e.Violate("cmd-api-targets", "differ", "the coordinator's API lists active targets %v, discovery and the loaded configuration say %v", got, want)
	}
	r.e.Probe("cmdworld_api_checked")
}
