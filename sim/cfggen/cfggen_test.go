package cfggen

import (
	"testing"

	"github.com/go-kit/log"
	"github.com/prometheus/prometheus/config"
	_ "github.com/prometheus/prometheus/discovery/install"

	"kvassverif/core"
)

func TestGeneratedConfigsLoad(t *testing.T) {
	bad := 0
	for i := 0; i < 3000; i++ {
		tp := core.NewTape(uint64(i))
		root, _ := Config(tp, Opts{SDKinds: true})
		st := DrawStyle(tp)
		txt := Render(root, st)
		if _, err := config.Load(txt, false, log.NewNopLogger()); err != nil {
			bad++
			if bad < 4 {
				t.Errorf("seed %d style %+v: %v\n%s", i, st, err, txt)
			}
			continue
		}
		r2, ed, ok := ApplyEdit(tp, root)
		if ok {
			txt2 := Render(r2, Style{})
			if _, err := config.Load(txt2, false, log.NewNopLogger()); err != nil {
				bad++
				if bad < 4 {
					t.Errorf("seed %d edit %+v: %v\n%s", i, ed, err, txt2)
				}
			}
		}
	}
	if bad > 0 {
		t.Fatalf("%d invalid", bad)
	}
}
