// Package cfggen generates Prometheus configurations as an ordered tree whose
// leaves know their value domain, renders the tree in different (cosmetically
// equivalent) YAML styles, and applies single-setting semantic edits. Every
// secret is a unique token, so any occurrence in an output is attributable.
package cfggen

import (
	"fmt"
	"sort"
	"strings"

	"kvassverif/core"
)

type Kind int

const (
	Str Kind = iota
	Enum          // one of Domain
	Int           // one of Domain (decimal strings)
	Bool
	Secret
	Regex
	Free // free text that may be extended
)

// Leaf is a scalar with its domain.
type Leaf struct {
	Kind   Kind
	Val    string
	Domain []string
	Path   string // filled by Walk
}

type KV struct {
	K string
	V interface{} // *Leaf | *Map | *List
}

type Map struct {
	Items []KV
	// Unordered: key order is cosmetic (true for every YAML mapping)
}

type List struct {
	Items []interface{}
	// OrderMatters: reordering entries is a semantic edit (relabel rules, jobs)
	OrderMatters bool
	// Scalars: a list of scalar leaves (may be rendered in flow style)
}

func M(items ...KV) *Map { return &Map{Items: items} }
func (m *Map) Add(k string, v interface{}) *Map {
	m.Items = append(m.Items, KV{k, v})
	return m
}
func (m *Map) Get(k string) interface{} {
	for _, it := range m.Items {
		if it.K == k {
			return it.V
		}
	}
	return nil
}
func (m *Map) Del(k string) {
	for i, it := range m.Items {
		if it.K == k {
			m.Items = append(m.Items[:i], m.Items[i+1:]...)
			return
		}
	}
}

func S(v string) *Leaf                { return &Leaf{Kind: Str, Val: v} }
func F(v string) *Leaf                { return &Leaf{Kind: Free, Val: v} }
func E(v string, dom ...string) *Leaf { return &Leaf{Kind: Enum, Val: v, Domain: dom} }
func I(v string, dom ...string) *Leaf { return &Leaf{Kind: Int, Val: v, Domain: dom} }
func B(v bool) *Leaf {
	return &Leaf{Kind: Bool, Val: fmt.Sprint(v)}
}
func R(v string, dom ...string) *Leaf { return &Leaf{Kind: Regex, Val: v, Domain: dom} }

// Sec creates a secret token that is unique within a configuration: the place
// it belongs to is part of it, and the rest is drawn from the tape (no global
// counter: a run must be a pure function of its tape).
func Sec(tp *core.Tape, where string) *Leaf {
	return &Leaf{Kind: Secret, Val: fmt.Sprintf("s3cr3t-%s-%d", where, 1000+tp.Choose("secret", 1<<20))}
}

func L(order bool, items ...interface{}) *List { return &List{Items: items, OrderMatters: order} }

// Clone deep-copies a tree.
func Clone(n interface{}) interface{} {
	switch t := n.(type) {
	case *Leaf:
		c := *t
		c.Domain = append([]string(nil), t.Domain...)
		return &c
	case *Map:
		c := &Map{}
		for _, it := range t.Items {
			c.Items = append(c.Items, KV{it.K, Clone(it.V)})
		}
		return c
	case *List:
		c := &List{OrderMatters: t.OrderMatters}
		for _, it := range t.Items {
			c.Items = append(c.Items, Clone(it))
		}
		return c
	}
	return n
}

// Walk visits every node with its path.
func Walk(n interface{}, path string, f func(path string, n interface{})) {
	f(path, n)
	switch t := n.(type) {
	case *Map:
		for _, it := range t.Items {
			Walk(it.V, path+"."+it.K, f)
		}
	case *List:
		for i, it := range t.Items {
			_ = i
			Walk(it, path+"[]", f)
		}
	case *Leaf:
		t.Path = path
	}
}

// Leaves returns all leaves in document order with their paths set.
func Leaves(n interface{}) []*Leaf {
	var out []*Leaf
	Walk(n, "", func(p string, x interface{}) {
		if l, ok := x.(*Leaf); ok {
			l.Path = strings.TrimPrefix(p, ".")
			out = append(out, l)
		}
	})
	return out
}

// Secrets returns path -> token of every secret leaf.
func Secrets(n interface{}) map[string]string {
	out := map[string]string{}
	for _, l := range Leaves(n) {
		if l.Kind == Secret {
			out[l.Val] = l.Path
		}
	}
	return out
}

// ---- rendering ---------------------------------------------------------------

// Style is a cosmetic rendering choice; any two styles of one tree are the same
// configuration.
type Style struct {
	Indent      int  // 2 or 4
	Comments    bool // sprinkle comments and blank lines
	ShuffleKeys uint64 // 0 = as built; else a permutation seed for mapping keys
	Quote       int  // 0 plain where possible, 1 double quotes, 2 single quotes
	Flow        bool // scalar lists in flow style
	DocStart    bool // leading '---'
	TrailingWS  bool
}

func needsQuote(s string) bool {
	if s == "" {
		return true
	}
	switch strings.ToLower(s) {
	case "true", "false", "yes", "no", "null", "~", "on", "off", "y", "n":
		return true
	}
	if strings.ContainsAny(s, ":#{}[],&*!|>'\"%@`\\\n\t") || s[0] == '-' || s[0] == ' ' || s[len(s)-1] == ' ' || s[0] == '?' {
		return true
	}
	// numbers must be quoted to stay strings
	digits := true
	for _, c := range s {
		if (c < '0' || c > '9') && c != '.' && c != 'e' && c != '+' {
			digits = false
		}
	}
	return digits
}

func scalar(l *Leaf, st Style) string {
	if l.Kind == Bool || l.Kind == Int {
		return l.Val
	}
	q := st.Quote
	if q == 0 && needsQuote(l.Val) {
		q = 1
	}
	if q == 2 && strings.ContainsAny(l.Val, "'\\\n\t") {
		q = 1
	}
	switch q {
	case 1:
		r := strings.NewReplacer("\\", "\\\\", "\"", "\\\"", "\n", "\\n", "\t", "\\t")
		return "\"" + r.Replace(l.Val) + "\""
	case 2:
		return "'" + l.Val + "'"
	}
	return l.Val
}

func permute(n int, seed uint64) []int {
	p := make([]int, n)
	for i := range p {
		p[i] = i
	}
	if seed == 0 {
		return p
	}
	r := core.NewRand(seed)
	for i := n - 1; i > 0; i-- {
		j := int(r.Uint64() % uint64(i+1))
		p[i], p[j] = p[j], p[i]
	}
	return p
}

// Render produces YAML text.
func Render(n interface{}, st Style) string {
	if st.Indent == 0 {
		st.Indent = 2
	}
	var b strings.Builder
	if st.DocStart {
		b.WriteString("---\n")
	}
	if st.Comments {
		b.WriteString("# generated configuration\n\n")
	}
	render(&b, n, 0, st, 1)
	return b.String()
}

func allScalars(l *List) bool {
	for _, it := range l.Items {
		if _, ok := it.(*Leaf); !ok {
			return false
		}
	}
	return len(l.Items) > 0
}

func render(b *strings.Builder, n interface{}, depth int, st Style, salt uint64) {
	pad := strings.Repeat(" ", depth*st.Indent)
	ws := ""
	if st.TrailingWS {
		ws = "  "
	}
	switch t := n.(type) {
	case *Map:
		order := permute(len(t.Items), st.ShuffleKeys*salt)
		for idx, oi := range order {
			it := t.Items[oi]
			if st.Comments && depth <= 1 && idx%3 == 1 {
				fmt.Fprintf(b, "%s# %s follows\n", pad, it.K)
			}
			switch v := it.V.(type) {
			case *Leaf:
				fmt.Fprintf(b, "%s%s: %s%s\n", pad, it.K, scalar(v, st), ws)
			case *List:
				if len(v.Items) == 0 {
					fmt.Fprintf(b, "%s%s: []\n", pad, it.K)
				} else if st.Flow && allScalars(v) {
					var parts []string
					for _, x := range v.Items {
						l := *x.(*Leaf)
						parts = append(parts, scalar(&l, Style{Quote: 1}))
					}
					fmt.Fprintf(b, "%s%s: [%s]\n", pad, it.K, strings.Join(parts, ", "))
				} else {
					fmt.Fprintf(b, "%s%s:\n", pad, it.K)
					render(b, v, depth, st, salt*31+uint64(len(it.K)))
				}
			case *Map:
				if len(v.Items) == 0 {
					fmt.Fprintf(b, "%s%s: {}\n", pad, it.K)
				} else {
					fmt.Fprintf(b, "%s%s:\n", pad, it.K)
					render(b, v, depth+1, st, salt*31+uint64(len(it.K)))
				}
			}
		}
	case *List:
		for _, it := range t.Items {
			switch v := it.(type) {
			case *Leaf:
				fmt.Fprintf(b, "%s- %s\n", pad, scalar(v, st))
			case *Map:
				var sub strings.Builder
				// list items are indented by st.Indent relative to the dash
				st2 := st
				render(&sub, v, 0, st2, salt*17+3)
				lines := strings.Split(strings.TrimRight(sub.String(), "\n"), "\n")
				first := true
				for _, ln := range lines {
					if first {
						// comments cannot be the first line of a list item here
						if strings.HasPrefix(strings.TrimSpace(ln), "#") {
							fmt.Fprintf(b, "%s%s\n", pad, strings.TrimSpace(ln))
							continue
						}
						fmt.Fprintf(b, "%s- %s\n", pad, ln)
						first = false
					} else {
						fmt.Fprintf(b, "%s  %s\n", pad, ln)
					}
				}
			}
		}
	}
}

// ---- edits --------------------------------------------------------------------

// Edit is one single-setting semantic change.
type Edit struct {
	Path string
	Kind string
	From string
	To   string
}

// ApplyEdit applies a drawn semantic edit to (a clone of) the tree and returns
// the new tree and what was changed; ok=false when the tree offers no edit.
func ApplyEdit(tp *core.Tape, root interface{}) (interface{}, *Edit, bool) {
	c := Clone(root)
	leaves := Leaves(c)
	type listRef struct {
		l    *List
		path string
	}
	var lists []listRef
	Walk(c, "", func(p string, x interface{}) {
		if l, ok := x.(*List); ok && l.OrderMatters && len(l.Items) >= 2 {
			lists = append(lists, listRef{l, strings.TrimPrefix(p, ".")})
		}
	})
	var editable []*Leaf
	for _, l := range leaves {
		switch l.Kind {
		case Enum, Int, Regex:
			if len(l.Domain) > 1 {
				editable = append(editable, l)
			}
		case Bool, Secret, Free:
			editable = append(editable, l)
		}
	}
	if len(editable) == 0 && len(lists) == 0 {
		return root, nil, false
	}
	// bias: regexes and secrets get their share even in big trees
	var special []*Leaf
	for _, l := range editable {
		if l.Kind == Regex || l.Kind == Secret {
			special = append(special, l)
		}
	}
	switch tp.Weighted("edit_kind", 6, 3, 1) {
	case 1:
		if len(special) > 0 {
			editable = special
		}
	case 2:
		if len(lists) > 0 {
			lr := lists[tp.Choose("edit_list", len(lists))]
			i := tp.Choose("swap_at", len(lr.l.Items)-1)
			lr.l.Items[i], lr.l.Items[i+1] = lr.l.Items[i+1], lr.l.Items[i]
			if Render(c, Style{}) == Render(root, Style{}) {
				break // swapped two identical entries: fall through to a leaf edit
			}
			return c, &Edit{Path: lr.path, Kind: "reorder", From: fmt.Sprint(i), To: fmt.Sprint(i + 1)}, true
		}
	}
	if len(editable) == 0 {
		return root, nil, false
	}
	l := editable[tp.Choose("edit_leaf", len(editable))]
	e := &Edit{Path: l.Path, From: l.Val}
	switch l.Kind {
	case Bool:
		e.Kind = "bool"
		if l.Val == "true" {
			l.Val = "false"
		} else {
			l.Val = "true"
		}
	case Secret:
		e.Kind = "secret"
		l.Val = l.Val + "-rotated"
	case Free:
		e.Kind = "string"
		l.Val = l.Val + "x"
	default:
		e.Kind = map[Kind]string{Enum: "enum", Int: "int", Regex: "regex"}[l.Kind]
		var alts []string
		for _, d := range l.Domain {
			if d != l.Val {
				alts = append(alts, d)
			}
		}
		sort.Strings(alts)
		l.Val = alts[tp.Choose("edit_value", len(alts))]
	}
	e.To = l.Val
	return c, e, true
}
