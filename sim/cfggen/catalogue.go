package cfggen

import (
	"fmt"

	"kvassverif/core"
)

var intervals = []string{"15s", "30s", "1m", "45s"}
var timeouts = []string{"10s", "5s", "3s", "8s"}
var regexes = []string{"(.+)", "up|down", "a(b+)c", ".*_total", "node_.+", "[a-z]+:(\\d+)", "drop_.*"}
var labelNames = []string{"env", "zone", "__meta_kubernetes_pod_name", "instance", "team", "__address__"}

// Opts restricts the catalogue.
type Opts struct {
	// NoSectionSecrets: no secrets outside scrape jobs except basic-auth
	// passwords of remote write/read (the subset the tree restores correctly)
	NoSectionSecrets bool
	MaxJobs          int
	SDKinds          bool // use non-static SD kinds too
	NoAuth           bool
}

func relabelRule(tp *core.Tape, metric bool) *Map {
	m := M()
	action := core.Pick(tp, "relabel_action", "replace", "keep", "drop", "labelmap", "labeldrop", "labelkeep", "hashmod")
	switch action {
	case "labeldrop", "labelkeep":
		m.Add("regex", R(regexes[tp.Choose("regex", len(regexes))], regexes...))
		m.Add("action", S(action))
		return m
	case "labelmap":
		m.Add("regex", R(core.Pick(tp, "lm_regex", "__meta_(.+)", "x_(.+)", "(.+)_y"), "__meta_(.+)", "x_(.+)", "(.+)_y"))
		m.Add("replacement", E(core.Pick(tp, "lm_repl", "$1", "m_$1"), "$1", "m_$1", "n_${1}"))
		m.Add("action", S(action))
		return m
	}
	src := L(true)
	ns := 1 + tp.Choose("n_src", 2)
	for i := 0; i < ns; i++ {
		n := labelNames[tp.Choose("src_label", len(labelNames))]
		if metric {
			n = core.Pick(tp, "metric_src", "__name__", "code", "le", "handler")
		}
		src.Items = append(src.Items, E(n, append([]string{"__name__", "code", "le", "handler"}, labelNames...)...))
	}
	m.Add("source_labels", src)
	if tp.Bool("separator", 1, 3) {
		m.Add("separator", E(core.Pick(tp, "sep", ";", "@", "-"), ";", "@", "-", "_"))
	}
	switch action {
	case "hashmod":
		m.Add("modulus", I(core.Pick(tp, "modulus", "8", "3", "16"), "8", "3", "16", "5"))
		m.Add("target_label", E("__tmp_hash", "__tmp_hash", "shard"))
	case "replace":
		m.Add("regex", R(regexes[tp.Choose("regex", len(regexes))], regexes...))
		m.Add("target_label", E(core.Pick(tp, "target_label", "env", "out", "instance"), "env", "out", "instance", "copy"))
		m.Add("replacement", E(core.Pick(tp, "replacement", "$1", "static", "${1}-x"), "$1", "static", "${1}-x", "y"))
	default:
		m.Add("regex", R(regexes[tp.Choose("regex", len(regexes))], regexes...))
	}
	m.Add("action", S(action))
	return m
}

func relabelList(tp *core.Tape, metric bool) *List {
	l := L(true)
	n := 1 + tp.Choose("n_rules", 3)
	for i := 0; i < n; i++ {
		l.Items = append(l.Items, relabelRule(tp, metric))
	}
	return l
}

// auth adds one authentication kind to an HTTP client config map; returns its name.
func auth(tp *core.Tape, m *Map, where string, kinds ...string) string {
	k := kinds[tp.Choose("auth_kind", len(kinds))]
	switch k {
	case "basic_auth":
		m.Add("basic_auth", M(KV{"username", F("user-" + where)}, KV{"password", Sec(tp, where+"-pw")}))
	case "authorization":
		m.Add("authorization", M(KV{"type", E("Bearer", "Bearer", "Token")}, KV{"credentials", Sec(tp, where+"-cred")}))
	case "bearer_token":
		m.Add("bearer_token", Sec(tp, where+"-bt"))
	case "oauth2":
		m.Add("oauth2", M(KV{"client_id", F("cid-" + where)}, KV{"client_secret", Sec(tp, where+"-cs")},
			KV{"token_url", F("http://auth." + where + "/token")}))
	case "tls":
		m.Add("tls_config", M(KV{"insecure_skip_verify", B(true)}, KV{"server_name", F("srv." + where)}))
	case "sigv4":
		m.Add("sigv4", M(KV{"region", F("eu-west-1")}, KV{"access_key", F("AK" + where)}, KV{"secret_key", Sec(tp, where+"-sk")}))
	}
	return k
}

func sd(tp *core.Tape, job *Map, name string, kinds bool) string {
	k := "static"
	if kinds {
		k = core.Pick(tp, "sd_kind", "static", "file", "dns", "kubernetes", "http", "consul", "static+file")
	}
	static := func() {
		tg := L(false)
		n := 1 + tp.Choose("n_static", 3)
		for i := 0; i < n; i++ {
			tg.Items = append(tg.Items, F(fmt.Sprintf("%s-%d.example:9%03d", name, i, tp.Choose("port", 900))))
		}
		g := M(KV{"targets", tg})
		if tp.Bool("static_labels", 1, 2) {
			g.Add("labels", M(KV{"env", F("prod")}, KV{"zone", F("z" + fmt.Sprint(tp.Choose("zone", 3)))}))
		}
		job.Add("static_configs", L(false, g))
	}
	switch k {
	case "static":
		static()
	case "file":
		job.Add("file_sd_configs", L(false, M(KV{"files", L(false, E("sd/"+name+"/*.json", "sd/"+name+"/*.json", "sd/"+name+"/x-*.json", "other/"+name+".yaml"))}, KV{"refresh_interval", E("5m", "5m", "1m", "30s")})))
	case "dns":
		job.Add("dns_sd_configs", L(false, M(KV{"names", L(false, F("_prom._tcp."+name+".example"))}, KV{"type", E("SRV", "SRV", "A")}, KV{"port", I("9100", "9100", "80")})))
	case "kubernetes":
		job.Add("kubernetes_sd_configs", L(false, M(KV{"role", E(core.Pick(tp, "k8s_role", "pod", "endpoints", "node"), "pod", "endpoints", "node", "service")},
			KV{"api_server", F("https://k8s." + name + ".example")})))
	case "http":
		job.Add("http_sd_configs", L(false, M(KV{"url", F("http://sd." + name + ".example/targets")}, KV{"refresh_interval", E("1m", "1m", "30s")})))
	case "consul":
		job.Add("consul_sd_configs", L(false, M(KV{"server", F("consul." + name + ".example:8500")}, KV{"token", Sec(tp, name+"-consul")})))
	case "static+file":
		static()
		job.Add("file_sd_configs", L(false, M(KV{"files", L(false, E("sd/"+name+".yml", "sd/"+name+".yml", "sd/"+name+"-2.yml"))})))
	}
	return k
}

// Job generates one scrape job.
func Job(tp *core.Tape, name string, o Opts) *Map {
	j := M(KV{"job_name", S(name)})
	if tp.Bool("job_interval", 1, 2) {
		j.Add("scrape_interval", E(intervals[tp.Choose("interval", len(intervals))], intervals...))
		j.Add("scrape_timeout", E(timeouts[tp.Choose("timeout", len(timeouts))], timeouts...))
	}
	if tp.Bool("metrics_path", 1, 3) {
		j.Add("metrics_path", F(core.Pick(tp, "path", "/metrics", "/probe", "/federate")))
	}
	if tp.Bool("scheme", 1, 3) {
		j.Add("scheme", E(core.Pick(tp, "scheme_v", "https", "http"), "https", "http"))
	}
	if tp.Bool("params", 1, 3) {
		p := M(KV{"module", L(true, F("http_2xx"))})
		if tp.Bool("params2", 1, 2) {
			p.Add("match[]", L(true, F("{job=\"a\"}"), F("up")))
		}
		j.Add("params", p)
	}
	if tp.Bool("honor_labels", 1, 3) {
		j.Add("honor_labels", B(tp.Bool("honor_labels_v", 1, 2)))
	}
	if tp.Bool("honor_timestamps", 1, 4) {
		j.Add("honor_timestamps", B(tp.Bool("honor_ts_v", 1, 2)))
	}
	if tp.Bool("limits", 1, 3) {
		j.Add("sample_limit", I(core.Pick(tp, "sample_limit", "1000", "50000"), "1000", "50000", "7"))
		if tp.Bool("more_limits", 1, 2) {
			j.Add("target_limit", I("100", "100", "5"))
			j.Add("label_limit", I("30", "30", "64"))
			j.Add("label_name_length_limit", I("200", "200", "100"))
			j.Add("label_value_length_limit", I("300", "300", "500"))
			j.Add("body_size_limit", E("10MB", "10MB", "1MB"))
		}
	}
	if tp.Bool("own_proxy_url", 1, 6) {
		j.Add("proxy_url", E("http://corp-proxy."+name+".example:3128", "http://corp-proxy."+name+".example:3128", "http://other-proxy."+name+".example:8080"))
	}
	if tp.Bool("follow_redirects", 1, 5) {
		j.Add("follow_redirects", B(false))
	}
	if !o.NoAuth && tp.Bool("job_auth", 1, 2) {
		auth(tp, j, name, "basic_auth", "authorization", "bearer_token", "oauth2", "tls")
		if tp.Bool("job_tls_too", 1, 4) && j.Get("tls_config") == nil {
			j.Add("tls_config", M(KV{"insecure_skip_verify", B(true)}))
		}
	}
	if tp.Bool("relabel", 1, 2) {
		j.Add("relabel_configs", relabelList(tp, false))
	}
	if tp.Bool("metric_relabel", 1, 2) {
		j.Add("metric_relabel_configs", relabelList(tp, true))
	}
	sd(tp, j, name, o.SDKinds)
	return j
}

// Config generates a whole configuration tree and returns it with its job names.
func Config(tp *core.Tape, o Opts) (*Map, []string) {
	root := M()
	g := M(KV{"scrape_interval", E(intervals[tp.Choose("g_interval", len(intervals))], intervals...)},
		KV{"scrape_timeout", E(timeouts[tp.Choose("g_timeout", len(timeouts))], timeouts...)})
	if tp.Bool("eval_interval", 1, 2) {
		g.Add("evaluation_interval", E("30s", "30s", "1m", "15s"))
	}
	if tp.Bool("external_labels", 1, 2) {
		g.Add("external_labels", M(KV{"cluster", F("c" + fmt.Sprint(tp.Choose("cluster", 5)))}, KV{"replica", F("r0")}))
	}
	root.Add("global", g)
	if tp.Bool("rule_files", 1, 3) {
		root.Add("rule_files", L(true, F("rules/*.yml"), F("alerts/base.yml")))
	}
	if tp.Bool("alerting", 1, 3) {
		am := M(KV{"scheme", E("http", "http", "https")}, KV{"timeout", E("10s", "10s", "5s")},
			KV{"static_configs", L(false, M(KV{"targets", L(false, F("am-0:9093"), F("am-1:9093"))}))})
		if !o.NoSectionSecrets && tp.Bool("am_auth", 1, 2) {
			auth(tp, am, "am", "basic_auth", "authorization", "bearer_token")
		}
		al := M(KV{"alertmanagers", L(true, am)})
		if tp.Bool("alert_relabel", 1, 2) {
			al.Add("alert_relabel_configs", relabelList(tp, false))
		}
		root.Add("alerting", al)
	}
	nj := 1 + tp.Choose("n_jobs", 4)
	if o.MaxJobs > 0 && nj > o.MaxJobs {
		nj = o.MaxJobs
	}
	jobs := L(true)
	var names []string
	for i := 0; i < nj; i++ {
		name := fmt.Sprintf("job-%c", 'a'+i)
		names = append(names, name)
		jobs.Items = append(jobs.Items, Job(tp, name, o))
	}
	root.Add("scrape_configs", jobs)
	if tp.Bool("remote_write", 1, 2) {
		rw := L(true)
		n := 1 + tp.Choose("n_rw", 2)
		for i := 0; i < n; i++ {
			w := M(KV{"url", F(fmt.Sprintf("http://remote-%d.example/api/v1/write", i))})
			if tp.Bool("rw_timeout", 1, 2) {
				w.Add("remote_timeout", E("30s", "30s", "10s"))
			}
			if tp.Bool("rw_name", 1, 2) {
				w.Add("name", F(fmt.Sprintf("rw%d", i)))
			}
			if o.NoSectionSecrets {
				if tp.Bool("rw_auth", 1, 2) {
					auth(tp, w, fmt.Sprintf("rw%d", i), "basic_auth")
				}
			} else if tp.Bool("rw_auth", 2, 3) {
				auth(tp, w, fmt.Sprintf("rw%d", i), "basic_auth", "bearer_token", "authorization", "oauth2", "sigv4")
			}
			if tp.Bool("rw_relabel", 1, 3) {
				w.Add("write_relabel_configs", relabelList(tp, true))
			}
			if tp.Bool("rw_queue", 1, 3) {
				w.Add("queue_config", M(KV{"capacity", I("2500", "2500", "500")}, KV{"max_shards", I("200", "200", "10")}))
			}
			rw.Items = append(rw.Items, w)
		}
		root.Add("remote_write", rw)
	}
	if tp.Bool("remote_read", 1, 4) {
		r := M(KV{"url", F("http://remote-r.example/api/v1/read")}, KV{"read_recent", B(tp.Bool("read_recent", 1, 2))})
		if o.NoSectionSecrets {
			if tp.Bool("rr_auth", 1, 2) {
				auth(tp, r, "rr", "basic_auth")
			}
		} else if tp.Bool("rr_auth", 1, 2) {
			auth(tp, r, "rr", "basic_auth", "bearer_token", "authorization")
		}
		root.Add("remote_read", L(true, r))
	}
	return root, names
}

// DrawStyle draws a cosmetic style.
func DrawStyle(tp *core.Tape) Style {
	st := Style{Indent: core.Pick(tp, "indent", 2, 4), Comments: tp.Bool("comments", 1, 2), Quote: tp.Choose("quote", 3),
		Flow: tp.Bool("flow", 1, 2), DocStart: tp.Bool("docstart", 1, 3), TrailingWS: tp.Bool("trailing_ws", 1, 4)}
	if tp.Bool("shuffle_keys", 1, 2) {
		st.ShuffleKeys = 1 + uint64(tp.Choose("key_seed", 1000))
	}
	return st
}
