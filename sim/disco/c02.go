package disco

import (
	"encoding/json"
	"fmt"
	"net/http/httptest"
	"net/url"
	"os"
	"path/filepath"
	"sort"
	"strings"
	"testing/synctest"
	"time"

	"github.com/go-kit/log"
	"github.com/prometheus/common/model"
	"github.com/prometheus/prometheus/config"
	pdisc "github.com/prometheus/prometheus/discovery"
	"github.com/prometheus/prometheus/discovery/targetgroup"
	"github.com/prometheus/prometheus/model/labels"
	pscrape "github.com/prometheus/prometheus/scrape"

	"kvassverif/core"
	"kvassverif/sidecarsim"

	"tkestack.io/kvass/pkg/shard"
	"tkestack.io/kvass/pkg/target"
)

type c02Gen struct {
	avoidGroupFail  bool
	avoidParamOver  bool
	avoidBadName    bool
}

// c02Config draws one scrape job.
func c02Config(tp *core.Tape, g c02Gen) (string, []string) {
	var feats []string
	var b strings.Builder
	b.WriteString("global:\n  scrape_interval: 15s\n  scrape_timeout: 10s\nscrape_configs:\n- job_name: jx\n")
	if tp.Bool("scheme", 1, 3) {
		b.WriteString("  scheme: https\n")
		feats = append(feats, "scheme-https")
	}
	if tp.Bool("path", 1, 3) {
		b.WriteString("  metrics_path: /custom/metrics\n")
	}
	hasParams := tp.Bool("params", 1, 2)
	if hasParams {
		b.WriteString("  params:\n    module: [http_2xx, second]\n    \"match[]\": ['{job=\"x\"}', 'up']\n")
		feats = append(feats, "params")
	}
	if tp.Bool("honor", 1, 3) {
		b.WriteString("  honor_labels: true\n  honor_timestamps: false\n")
	}
	n := tp.Choose("n_relabel", 4)
	if n > 0 {
		b.WriteString("  relabel_configs:\n")
	}
	for i := 0; i < n; i++ {
		switch core.Pick(tp, "rule", "labelmap-meta", "replace-label", "replace-address", "replace-scheme", "replace-path", "replace-param", "replace-config-param", "drop", "keep", "labeldrop", "labelkeep", "hashmod", "replace-job") {
		case "labelmap-meta":
			b.WriteString("  - regex: __meta_lbl_(.+)\n    action: labelmap\n")
		case "replace-label":
			b.WriteString("  - source_labels: [zone, __meta_lbl_team]\n    separator: '-'\n    target_label: combined\n    action: replace\n")
		case "replace-address":
			b.WriteString("  - source_labels: [__meta_real_addr]\n    regex: (.+)\n    target_label: __address__\n    action: replace\n")
			feats = append(feats, "address-relabeled")
		case "replace-scheme":
			b.WriteString("  - source_labels: [__meta_tls]\n    regex: \"yes\"\n    replacement: https\n    target_label: __scheme__\n    action: replace\n")
		case "replace-path":
			b.WriteString("  - source_labels: [__meta_path]\n    regex: (.+)\n    target_label: __metrics_path__\n    action: replace\n")
		case "replace-param":
			b.WriteString("  - source_labels: [__address__]\n    target_label: __param_target\n    action: replace\n")
			feats = append(feats, "param-from-relabel")
		case "replace-config-param":
			if hasParams && !g.avoidParamOver {
				b.WriteString("  - source_labels: [__meta_module]\n    regex: (.+)\n    target_label: __param_module\n    action: replace\n")
				feats = append(feats, "param-overridden-by-relabel")
			}
		case "drop":
			b.WriteString("  - source_labels: [__meta_drop]\n    regex: \"yes\"\n    action: drop\n")
		case "keep":
			b.WriteString("  - source_labels: [zone]\n    regex: \"z.*|\"\n    action: keep\n")
		case "labeldrop":
			b.WriteString("  - regex: noise.*\n    action: labeldrop\n")
		case "labelkeep":
			b.WriteString("  - regex: __.*|zone|job|instance|noise1\n    action: labelkeep\n")
		case "hashmod":
			b.WriteString("  - source_labels: [__address__]\n    modulus: 4\n    target_label: __tmp_hash\n    action: hashmod\n")
		case "replace-job":
			b.WriteString("  - source_labels: [__meta_lbl_team]\n    regex: (.+)\n    target_label: job\n    replacement: team-$1\n    action: replace\n")
		}
	}
	b.WriteString("  static_configs:\n  - targets: ['placeholder:1']\n")
	return b.String(), feats
}

func c02Groups(tp *core.Tape, g c02Gen) ([]*targetgroup.Group, []string) {
	var feats []string
	var groups []*targetgroup.Group
	ng := 1 + tp.Choose("n_groups", 3)
	for gi := 0; gi < ng; gi++ {
		grp := &targetgroup.Group{Source: fmt.Sprintf("src-%d", gi), Labels: model.LabelSet{}}
		if tp.Bool("group_labels", 1, 2) {
			grp.Labels["zone"] = model.LabelValue(core.Pick(tp, "zone", "z1", "z2", "other"))
			if tp.Bool("group_meta", 1, 2) {
				grp.Labels["__meta_lbl_team"] = model.LabelValue(core.Pick(tp, "team", "red", "blue"))
			}
		}
		nt := 1 + tp.Choose("n_targets", 4)
		for ti := 0; ti < nt; ti++ {
			ls := model.LabelSet{}
			switch tp.Weighted("addr_kind", 6, 2, 1, 1, 1) {
			case 0:
				ls[model.AddressLabel] = model.LabelValue(fmt.Sprintf("h%d.example:%d", tp.Choose("host", 4), 9100+tp.Choose("port", 2)))
			case 1:
				ls[model.AddressLabel] = model.LabelValue(fmt.Sprintf("h%d.example", tp.Choose("host", 4))) // no port
				feats = append(feats, "address-without-port")
			case 2:
				ls[model.AddressLabel] = "[2001:db8::1]:9100"
				feats = append(feats, "ipv6")
			case 3:
				ls[model.AddressLabel] = "[2001:db8::2]"
				feats = append(feats, "ipv6-without-port")
			case 4:
				if !g.avoidGroupFail {
					// fails population: no address at all, or an invalid label value
					if tp.Bool("fail_kind", 1, 2) {
						ls["lonely"] = "no-address"
					} else {
						ls[model.AddressLabel] = "bad.example:1"
						ls["zone"] = model.LabelValue("invalid-utf8-\xff")
					}
					feats = append(feats, "group-with-failing-instance")
				} else {
					ls[model.AddressLabel] = "h0.example:9100"
				}
			}
			if tp.Bool("t_zone", 1, 3) {
				ls["zone"] = model.LabelValue(core.Pick(tp, "t_zone_v", "z1", "z9", ""))
			}
			if tp.Bool("t_noise", 1, 3) {
				ls["noise1"] = "n"
				ls["noise2"] = "m"
			}
			if tp.Bool("t_meta", 1, 2) {
				switch core.Pick(tp, "meta_kind", "real_addr", "tls", "path", "module", "drop", "lbl") {
				case "real_addr":
					ls["__meta_real_addr"] = "real.example:8443"
				case "tls":
					ls["__meta_tls"] = "yes"
				case "path":
					ls["__meta_path"] = "/from/meta"
				case "module":
					ls["__meta_module"] = "tcp_connect"
				case "drop":
					ls["__meta_drop"] = "yes"
				case "lbl":
					ls["__meta_lbl_team"] = "green"
				}
			}
			if tp.Bool("digit_label", 1, 6) {
				ls["__meta_lbl_1st"] = "digit-name" // labelmap turns it into the invalid name "1st"
				feats = append(feats, "label-name-starting-with-digit")
			}
			if !g.avoidBadName && tp.Bool("bad_label", 1, 10) {
				ls["__meta_lbl_a.b"] = "dotted" // -> "a.b": invalid even with the prefix
				feats = append(feats, "invalid-label-name")
			}
			grp.Targets = append(grp.Targets, ls)
			if tp.Bool("dup_in_group", 1, 8) {
				grp.Targets = append(grp.Targets, ls.Clone())
				feats = append(feats, "duplicate-in-group")
			}
		}
		groups = append(groups, grp)
		if tp.Bool("dup_group", 1, 8) {
			c := *grp
			c.Source = grp.Source + "-copy"
			groups = append(groups, &c)
			feats = append(feats, "duplicate-across-groups")
		}
	}
	return groups, feats
}

func canonTarget(lbls map[string]string, u *url.URL) string {
	var ks []string
	for k := range lbls {
		ks = append(ks, k)
	}
	sort.Strings(ks)
	var ls []string
	for _, k := range ks {
		ls = append(ls, k+"="+fmt.Sprintf("%q", lbls[k]))
	}
	q := u.Query()
	var qs []string
	for k, vs := range q {
		qs = append(qs, k+"="+strings.Join(vs, ","))
	}
	sort.Strings(qs)
	return fmt.Sprintf("{%s} %s://%s%s ?%s", strings.Join(ls, ","), u.Scheme, u.Host, u.Path, strings.Join(qs, "&"))
}

func c02Run(tp *core.Tape, e *core.Env) {
	problem := sidecarsim.InBubble(e.T, func() { c02Bubble(tp, e) })
	if problem != "" {
		e.Undecided("pipeline (C02): %s", problem)
	}
}

func c02Bubble(tp *core.Tape, e *core.Env) {
	g := c02Gen{}
	if e.AvoidKnown {
		g.avoidGroupFail = e.Known.OpenTrigger("C02", "group_with_failing_instance")
		g.avoidParamOver = e.Known.OpenTrigger("C02", "param_overridden_by_relabel")
		g.avoidBadName = e.Known.OpenTrigger("C02", "label_name_invalid_after_prefix")
	}
	cfgText, f1 := c02Config(tp, g)
	groups, f2 := c02Groups(tp, g)
	feats := append(f1, f2...)
	sort.Strings(feats)
	sample := map[string]interface{}{"config": cfgText, "features": feats}
	var gd []string
	for _, gr := range groups {
		gd = append(gd, fmt.Sprintf("%s labels=%v targets=%v", gr.Source, gr.Labels, gr.Targets))
	}
	sample["groups"] = gd
	defer e.SetSample(sample)

	// reference: one plain Prometheus with the original job and the same discovery data
	ocfg, err := config.Load(cfgText, false, log.NewNopLogger())
	if err != nil {
		e.Undecided("generated config invalid: %v\n%s", err, cfgText)
		return
	}
	job := ocfg.ScrapeConfigs[0]
	ref := map[string]int{}
	seenRef := map[string]bool{}
	for _, gr := range groups {
		// as scrape.TargetsFromGroup: target labels + group labels that the target does not set,
		// then PopulateLabels; a failing instance is skipped, the rest of the group is kept
		for _, tl := range gr.Targets {
			var ll []labels.Label
			for ln, lv := range tl {
				ll = append(ll, labels.Label{Name: string(ln), Value: string(lv)})
			}
			for ln, lv := range gr.Labels {
				if _, ok := tl[ln]; !ok {
					ll = append(ll, labels.Label{Name: string(ln), Value: string(lv)})
				}
			}
			res, orig, perr := pscrape.PopulateLabels(labels.New(ll...), job)
			if perr != nil || res == nil {
				continue
			}
			t := pscrape.NewTarget(res, orig, job.Params)
			// the scrape pool de-duplicates by the hash of the full final label set
			// (reserved __ labels included) and the URL
			full := res.String() + " " + t.URL().String()
			if seenRef[full] {
				continue
			}
			seenRef[full] = true
			ref[canonTarget(t.Labels().Map(), t.URL())]++
		}
	}

	// the sharded pipeline: discovery -> (JSON) -> sidecar -> generated file -> Prometheus stub -> proxy -> target
	w := NewWorld(tp, e, 1)
	w.Sch.Uninstall() // no interleaving dimension here
	defer w.Close()
	if err := w.Cfg.ReloadFromRaw([]byte(cfgText)); err != nil {
		e.Undecided("coordinator rejects config: %v", err)
		return
	}
	if tp.Bool("earlier_round", 1, 3) {
		// discovery had other data before: only the latest round counts (as in Prometheus, where a
		// new set of target groups replaces the previous one)
		prelim, _ := c02Groups(tp, g)
		w.SD <- map[string][]*targetgroup.Group{"jx": prelim}
		synctest.Wait()
		e.Probe("earlier_discovery_round")
	}
	w.SD <- map[string][]*targetgroup.Group{"jx": groups}
	synctest.Wait()
	act := w.TD.ActiveTargetsByHash()
	req := shard.UpdateTargetsRequest{Targets: map[string][]*target.Target{}}
	for _, h := range sidecarsim.SortedHashes(act) {
		req.Targets["jx"] = append(req.Targets["jx"], act[h].ShardTarget)
	}
	wire, _ := json.Marshal(&req)
	var got shard.UpdateTargetsRequest
	if err := json.Unmarshal(wire, &got); err != nil {
		e.Violate("assignment-not-transportable", "", "the assignment does not survive JSON: %v", err)
		return
	}
	dir := filepath.Join(e.Scratch, fmt.Sprintf("c02-%d", e.RunIndex))
	_ = os.RemoveAll(dir)
	_ = os.MkdirAll(dir, 0o755)
	defer os.RemoveAll(dir)
	tg := sidecarsim.NewTargets()
	tg.Default = &sidecarsim.TargetSpec{Payload: []byte("up 1\n")}
	sc := sidecarsim.Start(sidecarsim.Options{Dir: dir, Targets: tg})
	if sc.LoadErr != nil {
		e.Undecided("sidecar: %v", sc.LoadErr)
		return
	}
	if err := sc.PushConfig(cfgText); err != nil {
		e.Undecided("sidecar rejects config: %v", err)
		return
	}
	if err := sc.PostTargets(&got); err != nil {
		e.Undecided("sidecar rejects assignment: %v", err)
		return
	}
	data, _ := os.ReadFile(sc.OutFile)
	gcfg, err := config.Load(string(data), false, log.NewNopLogger())
	obs := map[string]int{}
	if err != nil {
		cause := "other"
		if strings.Contains(err.Error(), "is not a valid label name") {
			cause = "invalid-label-name"
		}
		e.Violate("shard-config-rejected", "cause="+cause, "the shard's Prometheus rejects the generated configuration (%v): it scrapes none of the %d reference targets", err, len(ref))
		return
	}
	for _, j := range gcfg.ScrapeConfigs {
		for _, sdc := range j.ServiceDiscoveryConfigs {
			st, ok := sdc.(pdisc.StaticConfig)
			if !ok {
				continue
			}
			for _, gr := range st {
				ts, _ := pscrape.TargetsFromGroup(gr, j)
				for _, t := range ts {
					if t.Labels().Len() == 0 {
						continue
					}
					if t.URL().Scheme != "http" {
						e.Violate("shard-target-not-plain-http", "", "the generated configuration makes the shard's Prometheus request %s: with the injected proxy_url a non-http scheme is a CONNECT tunnel, which the sidecar proxy does not serve", t.URL())
						continue
					}
					before := tg.Count()
					rr := httptest.NewRecorder()
					sc.Scrape(rr, t.URL().String())
					seen := tg.SeenSince(before)
					if len(seen) != 1 {
						e.Violate("proxy-requests", "", "one Prometheus scrape of %s made the proxy send %d requests (status %d)", t.URL(), len(seen), rr.Code)
						continue
					}
					u, _ := url.Parse(seen[0].URL)
					obs[canonTarget(t.Labels().Map(), u)]++
				}
			}
		}
	}
	e.Logf("reference %d targets, observed %d", len(ref), len(obs))
	if len(ref) > 0 {
		e.Key(strings.Join(uniqStr(feats), "+"))
	}
	// compare
	var missing, extra []string
	for c, n := range ref {
		if obs[c] < n {
			missing = append(missing, c)
		}
	}
	for c, n := range obs {
		if ref[c] < n {
			extra = append(extra, c)
		}
	}
	sort.Strings(missing)
	sort.Strings(extra)
	if len(missing)+len(extra) > 0 {
		comp := diffComponent(missing, extra)
		// the generator feature most likely behind a difference in this component
		prio := map[string][]string{
			"query":            {"param-overridden-by-relabel", "param-from-relabel", "params"},
			"scheme-host-path": {"address-relabeled", "ipv6-without-port", "address-without-port", "ipv6", "scheme-https"},
			"labels":           {"invalid-label-name", "label-name-starting-with-digit", "duplicate-across-groups", "duplicate-in-group"},
			"target-missing":   {"group-with-failing-instance", "invalid-label-name", "duplicate-across-groups", "duplicate-in-group"},
			"target-extra":     {"duplicate-across-groups", "duplicate-in-group", "group-with-failing-instance"},
		}
		feature := "none"
		for _, f := range prio[comp] {
			for _, x := range feats {
				if x == f && feature == "none" {
					feature = f
				}
			}
		}
		e.Violate("not-equivalent", "differs="+comp+",feature="+feature,
			"sharded scraping differs from one plain Prometheus.\nmissing (reference only):\n  %s\nextra (sharded only):\n  %s", strings.Join(missing, "\n  "), strings.Join(extra, "\n  "))
	}
	_ = time.Now
}

func uniqStr(s []string) []string {
	var out []string
	for i, x := range s {
		if i == 0 || x != s[i-1] {
			out = append(out, x)
		}
	}
	return out
}

// diffComponent names the first component in which the closest missing/extra pair differs.
func diffComponent(missing, extra []string) string {
	if len(extra) == 0 {
		return "target-missing"
	}
	if len(missing) == 0 {
		return "target-extra"
	}
	m, x := missing[0], extra[0]
	ml, xl := m[:strings.Index(m, "} ")+1], x[:strings.Index(x, "} ")+1]
	if ml != xl {
		return "labels"
	}
	mu, xu := m[len(ml)+1:], x[len(xl)+1:]
	mp, xp := strings.SplitN(mu, " ?", 2), strings.SplitN(xu, " ?", 2)
	if mp[0] != xp[0] {
		return "scheme-host-path"
	}
	return "query"
}
