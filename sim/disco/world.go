// Package disco is the disco engine: the real TargetsDiscovery (Run goroutine),
// the real Explore (worker pool, retry goroutines) and the real ConfigManager
// callback chain, wired as cmd/kvass/coordinator.go wires them, under a
// simulation loop that owns the SD producer, the forwarder to the explorer, the
// readers, the probe transport and — through the overlay's yield points before
// every Lock() — the order in which goroutines enter critical sections.
package disco

import (
	"context"
	"fmt"
	"io"
	"net/http"
	"sort"
	"strings"
	"sync"
	"sync/atomic"
	"testing/synctest"
	"time"

	"github.com/prometheus/client_golang/prometheus"
	"github.com/prometheus/common/model"
	"github.com/prometheus/prometheus/discovery/targetgroup"

	"kvassverif/core"
	"kvassverif/cycle"
	"kvassverif/sched"

	"kvassverif/sidecarsim"
	"tkestack.io/kvass/pkg/discovery"
	"tkestack.io/kvass/pkg/explore"
	"tkestack.io/kvass/pkg/prom"
	"tkestack.io/kvass/pkg/scrape"
)

// Probe is one parked explorer probe.
type Probe struct {
	Host   string
	URL    string
	At     time.Time
	DoneAt time.Time // fake time at which the transport returned
	arr    int
	ch     chan probeVerdict
	Done   bool
}

type probeVerdict struct {
	fail    string // "", connect, status, break
	payload []byte
}

// ProbeNet is the transport behind the explorer's scrape clients: every probe
// parks until the simulation loop releases it with an outcome.
type ProbeNet struct {
	mu      sync.Mutex
	parked  []*Probe
	arr     int
	Started []*Probe // every probe that reached the transport, in arrival order
}

type brokenBody struct {
	data []byte
	err  error // nil: closed early (unexpected EOF)
}

func (b *brokenBody) Read(p []byte) (int, error) {
	if len(b.data) == 0 {
		if b.err != nil {
			return 0, b.err
		}
		return 0, io.ErrUnexpectedEOF
	}
	n := copy(p, b.data)
	b.data = b.data[n:]
	return n, nil
}
func (b *brokenBody) Close() error { return nil }

func (n *ProbeNet) RoundTrip(req *http.Request) (*http.Response, error) {
	p := &Probe{Host: req.URL.Host, URL: req.URL.String(), At: time.Now(), ch: make(chan probeVerdict, 1)}
	n.mu.Lock()
	n.arr++
	p.arr = n.arr
	n.parked = append(n.parked, p)
	n.Started = append(n.Started, p)
	n.mu.Unlock()
	var v probeVerdict
	select {
	case v = <-p.ch:
	case <-req.Context().Done():
		n.mu.Lock()
		for i, x := range n.parked {
			if x == p {
				n.parked = append(n.parked[:i], n.parked[i+1:]...)
				break
			}
		}
		n.mu.Unlock()
		p.Done = true
		p.DoneAt = time.Now()
		return nil, req.Context().Err()
	}
	p.Done = true
	p.DoneAt = time.Now()
	hdr := http.Header{"Content-Type": []string{"text/plain; version=0.0.4"}}
	mk := func(code int, body io.ReadCloser) *http.Response {
		return &http.Response{StatusCode: code, Status: fmt.Sprintf("%d %s", code, http.StatusText(code)), Header: hdr, Body: body, Request: req, Proto: "HTTP/1.1", ProtoMajor: 1, ProtoMinor: 1, ContentLength: -1}
	}
	switch v.fail {
	case "connect":
		return nil, fmt.Errorf("dial tcp: connection refused (simulated)")
	case "status":
		return mk(503, io.NopCloser(strings.NewReader("busy\n"))), nil
	case "break":
		half := v.payload[:len(v.payload)/2]
		return mk(200, &brokenBody{data: append([]byte(nil), half...)}), nil
	case "reset": // the target's connection is reset in the middle of the body
		half := v.payload[:len(v.payload)/2]
		return mk(200, &brokenBody{data: append([]byte(nil), half...), err: sidecarsim.ErrReset}), nil
	}
	return mk(200, io.NopCloser(strings.NewReader(string(v.payload)))), nil
}

func (n *ProbeNet) Pending() []*Probe {
	n.mu.Lock()
	defer n.mu.Unlock()
	out := append([]*Probe(nil), n.parked...)
	sort.SliceStable(out, func(a, b int) bool {
		if out[a].Host != out[b].Host {
			return out[a].Host < out[b].Host
		}
		return out[a].arr < out[b].arr
	})
	return out
}

func (n *ProbeNet) Release(p *Probe, fail string, payload []byte) {
	sched.Sleep(0) // each probe completes at its own fake instant
	n.mu.Lock()
	for i, x := range n.parked {
		if x == p {
			n.parked = append(n.parked[:i], n.parked[i+1:]...)
			break
		}
	}
	n.mu.Unlock()
	p.ch <- probeVerdict{fail, payload}
}

func (n *ProbeNet) Count() int {
	n.mu.Lock()
	defer n.mu.Unlock()
	return len(n.Started)
}

// Op is one client operation running in its own goroutine.
type Op struct {
	Name   string
	Call   int
	Ret    int
	done   atomic.Bool
	Result interface{}
}

func (o *Op) Done() bool { return o.done.Load() }

// World is the assembled coordinator-side discovery pipeline.
type World struct {
	E    *core.Env
	TP   *core.Tape
	Sch  *sched.Sched
	Cfg  *prom.ConfigManager
	SM   *scrape.Manager
	TD   *discovery.TargetsDiscovery
	EX   *explore.Explore
	Net  *ProbeNet
	SD   chan map[string][]*targetgroup.Group
	ctx  context.Context
	stop context.CancelFunc
	seq  int
	ops  []*Op
	// translations taken from ActiveTargetsChan, waiting to be forwarded
	Translated []map[string][]*discovery.SDTargets
	bg         sync.WaitGroup
}

func (w *World) Tick() int { w.seq++; return w.seq }

// NewWorld wires the components like cmd/kvass/coordinator.go (same callback order).
func NewWorld(tp *core.Tape, e *core.Env, workers int) *World {
	lg := cycle.Quiet()
	w := &World{E: e, TP: tp, Net: &ProbeNet{}, SD: make(chan map[string][]*targetgroup.Group, 64)}
	w.SM = scrape.New(false, lg)
	w.TD = discovery.New(lg)
	w.EX = explore.New(w.SM, prometheus.NewRegistry(), lg)
	w.Cfg = prom.NewConfigManager()
	w.Cfg.AddReloadCallbacks(
		func(cfg *prom.ConfigInfo) error { return nil }, // configInject: no kubernetes SD here
		w.SM.ApplyConfig,
		func(cfg *prom.ConfigInfo) error { // harness: probes go to the simulated transport
			for _, j := range cfg.Config.ScrapeConfigs {
				if ji := w.SM.GetJob(j.JobName); ji != nil {
					ji.Cli.Transport = w.Net
				}
			}
			return nil
		},
		w.EX.ApplyConfig,
		w.TD.ApplyConfig,
		func(cfg *prom.ConfigInfo) error { return nil }, // discoveryManagerScrape.ApplyConfig: the sim is the SD manager
	)
	w.ctx, w.stop = context.WithCancel(context.Background())
	w.Sch = sched.Install()
	w.bg.Add(2)
	go func() { defer w.bg.Done(); _ = w.TD.Run(w.ctx, w.SD) }()
	go func() { defer w.bg.Done(); _ = w.EX.Run(w.ctx, workers) }()
	return w
}

// Start runs fn as a client operation in its own goroutine.
func (w *World) Start(name string, fn func() interface{}) *Op {
	o := &Op{Name: name, Call: w.Tick()}
	w.ops = append(w.ops, o)
	go func() {
		o.Result = fn()
		o.done.Store(true)
	}()
	return o
}

// Settle waits for quiescence, stamps finished operations and drains translations.
func (w *World) Settle() (finished []*Op) {
	synctest.Wait()
	var rest []*Op
	for _, o := range w.ops {
		if o.Done() {
			o.Ret = w.Tick()
			finished = append(finished, o)
		} else {
			rest = append(rest, o)
		}
	}
	w.ops = rest
	for {
		select {
		case t := <-w.TD.ActiveTargetsChan():
			w.Translated = append(w.Translated, t)
			continue
		default:
		}
		break
	}
	return finished
}

func (w *World) Running() int { return len(w.ops) }

// Close ends the world: everything parked is released, goroutines finish.
func (w *World) Close() {
	w.stop()
	w.Sch.Uninstall()
	// no target left: retry goroutines stop re-queueing their target (a worker's
	// select between ctx.Done and the queue is random once both are ready)
	w.EX.UpdateTargets(map[string][]*discovery.SDTargets{})
	// a worker whose select sees both ctx.Done and a queued target picks at random: keep
	// failing whatever still reaches the transport until nothing has arrived for a while
	quiet := 0
	for i := 0; i < 60 && quiet < 3; i++ {
		pend := w.Net.Pending()
		if len(pend) == 0 {
			quiet++
		} else {
			quiet = 0
		}
		for _, p := range pend {
			w.Net.Release(p, "connect", nil)
		}
		sched.Sleep(12 * time.Second) // retry sleeps and scrape time-outs on the fake clock
		synctest.Wait()
	}
}

// ---- configuration and target-group helpers -------------------------------------

// ConfigText renders a configuration with the given jobs. Every job drops targets
// labelled drop="yes" and has a metric relabel rule dropping drop_.* metrics.
func ConfigText(jobs []string) string { return ConfigTextRule(jobs, true) }

// ConfigTextCA is ConfigTextRule with a tls_config.ca_file on every job: while that file is
// missing the scrape manager cannot build the job's client and skips the job.
func ConfigTextCA(jobs []string, dropRule bool, caFile string) string {
	t := ConfigTextRule(jobs, dropRule)
	if caFile == "" {
		return t
	}
	return strings.ReplaceAll(t, "  static_configs:\n", "  tls_config:\n    ca_file: "+caFile+"\n  static_configs:\n")
}

// ConfigTextRule: with dropRule=false the jobs keep every metric (no metric relabel rule).
func ConfigTextRule(jobs []string, dropRule bool) string {
	if !dropRule {
		var b strings.Builder
		b.WriteString("global:\n  scrape_interval: 15s\n  scrape_timeout: 10s\nscrape_configs:\n")
		for _, j := range jobs {
			fmt.Fprintf(&b, "- job_name: %s\n  relabel_configs:\n  - source_labels: [drop]\n    regex: \"yes\"\n    action: drop\n  static_configs:\n  - targets: ['placeholder:1']\n", j)
		}
		return b.String()
	}
	var b strings.Builder
	b.WriteString("global:\n  scrape_interval: 15s\n  scrape_timeout: 10s\nscrape_configs:\n")
	for _, j := range jobs {
		fmt.Fprintf(&b, "- job_name: %s\n  relabel_configs:\n  - source_labels: [drop]\n    regex: \"yes\"\n    action: drop\n  metric_relabel_configs:\n  - source_labels: [__name__]\n    regex: drop_.*\n    action: drop\n  static_configs:\n  - targets: ['placeholder:1']\n", j)
	}
	if len(jobs) == 0 {
		b.WriteString("  []\n")
	}
	return b.String()
}

// Group builds one target group; addresses prefixed with '!' carry drop="yes".
func Group(source string, addrs ...string) *targetgroup.Group {
	g := &targetgroup.Group{Source: source, Labels: model.LabelSet{"grp": model.LabelValue(source)}}
	for _, a := range addrs {
		ls := model.LabelSet{}
		if strings.HasPrefix(a, "!") {
			a = a[1:]
			ls["drop"] = "yes"
		}
		ls[model.AddressLabel] = model.LabelValue(a)
		g.Targets = append(g.Targets, ls)
	}
	return g
}

func AddrOf(t *discovery.SDTargets) string {
	if t.ShardTarget != nil {
		if a := t.ShardTarget.Labels.Get(model.AddressLabel); a != "" {
			return a
		}
	}
	if t.PromTarget != nil {
		return t.PromTarget.DiscoveredLabels().Get(model.AddressLabel)
	}
	return ""
}

// Canon renders a job -> targets map as a sorted string ("job=[a b];...").
func Canon(m map[string][]*discovery.SDTargets) string {
	var jobs []string
	for j := range m {
		jobs = append(jobs, j)
	}
	sort.Strings(jobs)
	var parts []string
	for _, j := range jobs {
		var as []string
		for _, t := range m[j] {
			as = append(as, AddrOf(t))
		}
		sort.Strings(as)
		parts = append(parts, j+"=["+strings.Join(as, " ")+"]")
	}
	return strings.Join(parts, ";")
}
