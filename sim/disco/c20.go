package disco

import (
	"fmt"
	"os"
	"path/filepath"
	"sort"
	"strings"
	"time"

	"github.com/prometheus/prometheus/discovery/targetgroup"
	pscrape "github.com/prometheus/prometheus/scrape"

	"kvassverif/core"
	"kvassverif/sched"
	"kvassverif/sidecarsim"

	"tkestack.io/kvass/pkg/discovery"
	"tkestack.io/kvass/pkg/target"
)

type c20Target struct {
	addr     string
	hash     uint64
	sd       *discovery.SDTargets
	pattern  []string // failures before the first success
	nFailed  int
	asked    bool // Get was called while it was known
	askedAt  time.Time
	success  bool
	inDisc   bool // in the latest forwarded update
	removedAt *time.Time
	probes   []*probeRec
	old      []*probeRec // probes of earlier incarnations (before a removal + re-add)
	credits  int         // probes still owed to removed incarnations
	readded  bool
	total    int
	kept     int
	keptSeen int // kept count of the last successful probe under the rules then in force
}

type probeRec struct {
	p        *Probe
	released bool
	dropRule bool // the job's metric relabel rule in force when the probe started
	queuedAfterRemoval bool
	ambiguous bool // started while a probe was still owed to a removed incarnation: it may have been that one
	owed      bool // booked as the probe owed to a removed incarnation
	outcome  string
	at       time.Time
	doneAt   time.Time
}

// reattribute: which incarnation of a re-discovered target a probe belongs to cannot be seen at the
// transport. When the current incarnation looks as if it were probed after its success, but that
// success started while a probe was still owed to the removed incarnation and the probe booked as
// "owed" afterwards ended without success, the other reading is the legal one: the success was the
// removed incarnation's queued probe, the later probe the current incarnation's (failed) first one.
func reattribute(t *c20Target) bool {
	si := -1
	for i, r := range t.probes {
		if r.released && r.outcome == "" {
			si = i
		}
	}
	if si < 0 || !t.probes[si].ambiguous {
		return false
	}
	succ := t.probes[si]
	oi := -1
	for i, o := range t.old {
		if o.owed && !o.at.Before(succ.at) && oi < 0 {
			oi = i
		}
	}
	if oi < 0 {
		return false
	}
	o := t.old[oi]
	if !o.p.Done || (o.released && o.outcome == "") {
		return false
	}
	t.old[oi] = succ
	succ.owed, succ.ambiguous = true, false
	o.owed = false
	t.probes[si] = o
	sort.SliceStable(t.probes, func(a, b int) bool { return t.probes[a].at.Before(t.probes[b].at) })
	t.success = false
	return true
}

func c20Run(tp *core.Tape, e *core.Env) {
	var hist []string
	problem := sidecarsim.InBubble(e.T, func() { hist = c20Bubble(tp, e) })
	if problem != "" {
		e.Undecided("disco engine (C20): %s", problem)
	}
	if len(hist) > 80 {
		hist = hist[:80]
	}
	e.SetSample(map[string]interface{}{"history": hist})
}

func c20Bubble(tp *core.Tape, e *core.Env) (hist []string) {
	start := time.Now()
	workers := 1 + tp.Weighted("workers", 3, 2, 1, 1, 0, 0, 0, 1)
	w := NewWorld(tp, e, workers)
	defer w.Close()
	logf := func(f string, a ...interface{}) {
		s := fmt.Sprintf("t=%s ", time.Since(start).Round(time.Millisecond)) + fmt.Sprintf(f, a...)
		hist = append(hist, s)
		e.Logf("%s", s)
	}
	avoidReadd := e.AvoidKnown && e.Known.OpenTrigger("C20", "readd_while_probe_pending")
	// run an operation to completion, releasing yields in drawn order
	do := func(name string, fn func() interface{}) interface{} {
		o := w.Start(name, fn)
		for i := 0; i < 100; i++ {
			w.Settle()
			if o.Done() {
				return o.Result
			}
			if y := w.Sch.Pending(); len(y) > 0 {
				w.Sch.Release(y[tp.Choose("yield", len(y))])
			} else {
				break
			}
		}
		w.Settle()
		if !o.Done() {
			e.Undecided("operation %s blocked with nothing to release", name)
		}
		return o.Result
	}
	jobs := []string{"ja"}
	dropRule := true // whether the job's metric relabel rule (drop drop_.*) is in force
	// optionally the job's client cannot be built at first: its CA file does not exist yet
	caFile, caMissing := "", false
	if tp.Bool("ca_file_missing_at_first", 1, 5) {
		caFile = filepath.Join(e.Scratch, fmt.Sprintf("c20-ca-%d.pem", e.RunIndex))
		_ = os.Remove(caFile)
		caMissing = true
		defer os.Remove(caFile)
		e.Probe("job_client_unbuildable_at_first")
	}
	do("reload", func() interface{} { return w.Cfg.ReloadFromRaw([]byte(ConfigTextCA(jobs, dropRule, caFile))) })

	n := 1 + tp.Weighted("targets", 3, 3, 2, 1, 1)
	var ts []*c20Target
	for i := 0; i < n; i++ {
		t := &c20Target{addr: fmt.Sprintf("p%d:80", i+1)}
		nf := tp.Weighted("failures", 4, 3, 2, 1, 1, 1)
		for k := 0; k < nf; k++ {
			t.pattern = append(t.pattern, core.Pick(tp, "fail_kind", "connect", "status", "break", "timeout", "reset"))
		}
		ns := 1 + tp.Choose("samples", 6)
		for k := 0; k < ns; k++ {
			t.total++
			if tp.Bool("dropped_metric", 1, 3) {
				continue
			}
			t.kept++
		}
		ts = append(ts, t)
	}
	payloadOf := func(t *c20Target) []byte {
		var b strings.Builder
		for k := 0; k < t.total; k++ {
			if k < t.kept {
				fmt.Fprintf(&b, "m_%d{a=\"b\"} 1\n", k)
			} else {
				fmt.Fprintf(&b, "drop_%d 1\n", k)
			}
		}
		return []byte(b.String())
	}
	byHost := map[string]*c20Target{}
	for _, t := range ts {
		byHost[t.addr] = t
	}
	// discovery: the sim is the SD manager and the forwarder
	member := map[string]bool{}
	forward := func() {
		var as []string
		for _, t := range ts {
			if member[t.addr] {
				as = append(as, t.addr)
			}
		}
		w.SD <- map[string][]*targetgroup.Group{"ja": {Group("g", as...)}}
		for i := 0; i < 50 && len(w.Translated) == 0; i++ {
			w.Settle()
			if y := w.Sch.Pending(); len(y) > 0 {
				w.Sch.Release(y[0])
			}
		}
		if len(w.Translated) == 0 {
			e.Undecided("translation did not appear")
			return
		}
		tr := w.Translated[len(w.Translated)-1]
		w.Translated = nil
		for _, t := range ts {
			was := t.inDisc
			t.inDisc = false
			for _, x := range tr["ja"] {
				if AddrOf(x) == t.addr {
					t.inDisc = true
					t.sd = x
					t.hash = x.ShardTarget.Hash
				}
			}
			if was && !t.inDisc {
				now := time.Now()
				t.removedAt = &now
				if t.asked && !t.success {
					// a probe of this incarnation may still be queued or in flight: the
					// explorer is entitled to that one probe ("at most the one probe that
					// was already queued"), whichever incarnation the transport sees next
					t.credits++
				}
				t.asked = false // a later re-add makes it a new target for the explorer
			}
			if !was && t.inDisc && t.removedAt != nil {
				// a re-added target is a new target for the explorer: it is entitled to
				// its own first probe; probes of the previous incarnation that are still
				// in flight are remembered for the one-probe-in-flight clause
				e.Probe("target_readded")
				t.old = append(t.old, t.probes...)
				t.probes = nil
				t.success = false
				t.readded = true
			}
		}
		do("forward", func() interface{} { w.EX.UpdateTargets(tr); return nil })
		logf("forward update %v", as)
	}
	for _, t := range ts {
		member[t.addr] = true
	}
	forward()

	// per-step invariants over the probes seen at the transport
	seen := 0
	check := func() {
		started := w.Net.Started
		for ; seen < len(started); seen++ {
			p := started[seen]
			t := byHost[p.Host]
			if t == nil {
				e.Violate("unknown-probe", "", "a probe was sent to %s which is not a generated target", p.Host)
				continue
			}
			cls := "plain"
			if t.readded {
				cls = "readded"
			}
			for _, o := range t.old {
				if !o.p.Done {
					e.Violate("concurrent-probes", "class=readded-while-probe-in-flight", "target %s: after it was removed and re-added a probe started at %s while the probe of its previous incarnation (started at %s) is still in flight", t.addr, p.At.Sub(start), o.at.Sub(start))
				}
			}
			if !t.asked && !t.readded && t.inDisc {
				e.Violate("probe-before-get", "", "target %s was probed at %s before anybody asked for it", t.addr, p.At.Sub(start))
			}
			for _, o := range t.probes {
				if !o.p.Done && o.ambiguous {
					// the probe in flight may be the one the removed incarnation had queued: the same
					// situation as a probe of the removed incarnation that was already in flight
					e.Violate("concurrent-probes", "class=readded-while-probe-in-flight", "target %s: after it was removed and re-added a probe started at %s while a probe started at %s (possibly the one its previous incarnation had queued) is still in flight", t.addr, p.At.Sub(start), o.at.Sub(start))
					continue
				}
				if !o.p.Done {
					e.Violate("concurrent-probes", "class="+cls, "target %s: a probe started at %s while the probe started at %s is still in flight", t.addr, p.At.Sub(start), o.at.Sub(start))
				}
			}
			suspicious := t.success || !t.inDisc
			if len(t.probes) > 0 {
				last := t.probes[len(t.probes)-1]
				if last.released && !p.At.After(last.doneAt) {
					suspicious = true
				}
			}
			if suspicious && t.credits > 0 {
				// the queued probe of a removed incarnation
				t.credits--
				t.old = append(t.old, &probeRec{p: p, at: p.At, dropRule: dropRule, owed: true})
				logf("probe of %s starts (owed to a removed incarnation)", t.addr)
				continue
			}
			if t.success && reattribute(t) {
				logf("the earlier success of %s is booked as the probe owed to its removed incarnation", t.addr)
			}
			if t.success {
				e.Violate("probe-after-success", "class="+cls, "target %s was probed again at %s after a successful probe", t.addr, p.At.Sub(start))
			}
			if len(t.probes) > 0 {
				last := t.probes[len(t.probes)-1]
				if last.released && !p.At.After(last.doneAt) {
					e.Violate("hot-retry", "", "target %s: retry probe at %s in the same instant as the failed probe ended (%s)", t.addr, p.At.Sub(start), last.doneAt.Sub(start))
				}
			}
			if !t.inDisc {
				// at most the one probe that was already queued when it was removed
				cnt := 0
				for _, o := range t.probes {
					if t.removedAt != nil && !o.at.Before(*t.removedAt) && o.queuedAfterRemoval {
						cnt++
					}
				}
				if cnt >= 1 {
					e.Violate("probe-after-removal", "", "target %s left discovery at %s but was probed %d more times", t.addr, t.removedAt.Sub(start), cnt+1)
				}
			}
			t.probes = append(t.probes, &probeRec{p: p, at: p.At, queuedAfterRemoval: !t.inDisc, dropRule: dropRule, ambiguous: t.credits > 0})
			logf("probe #%d of %s starts", len(t.probes), t.addr)
		}
	}
	get := func(t *c20Target) *target.ScrapeStatus {
		h := t.hash
		r, _ := do("Get", func() interface{} { return w.EX.Get(h) }).(*target.ScrapeStatus)
		if r != nil && !t.asked {
			t.asked = true
			t.askedAt = time.Now()
		}
		return r
	}

	releaseProbe := func(p *Probe) {
		t := byHost[p.Host]
		var rec *probeRec
		cur := false
		for _, r := range t.probes {
			if r.p == p {
				rec = r
				cur = true
			}
		}
		for _, r := range t.old {
			if r.p == p {
				rec = r
			}
		}
		outcome := ""
		if t.nFailed < len(t.pattern) {
			outcome = t.pattern[t.nFailed]
			t.nFailed++
		}
		if outcome == "timeout" {
			// let the scrape deadline pass on the fake clock; the transport returns the context error
			sched.Sleep(11 * time.Second)
			w.Settle()
			e.Fault("probe_timeout")
		} else {
			w.Net.Release(p, outcome, payloadOf(t))
			w.Settle()
			if outcome != "" {
				e.Fault("probe_" + outcome)
			}
		}
		if rec != nil {
			rec.released, rec.outcome, rec.doneAt = true, outcome, p.DoneAt
		}
		// keep timer deadlines pairwise distinct: two retry sleeps that start in the
		// same fake instant would wake in an order the Go runtime picks
		sched.Sleep(time.Millisecond)
		w.Settle()
		if outcome == "" {
			// the estimate is what the rules in force at the time of the probe keep
			t.keptSeen = t.total
			if rec == nil || rec.dropRule {
				t.keptSeen = t.kept
			}
		}
		if outcome == "" && cur {
			t.success = true
			e.Probe("probe_succeeded")
		}
		// a target none of whose probes has succeeded must not look healthy with an
		// estimate: the coordinator assigns on (health up, series, total)
		if outcome != "" && cur && t.inDisc && !t.success && t.credits == 0 && len(t.old) == 0 {
			if r := get(t); r != nil && r.Health == pscrape.HealthGood {
				e.Violate("failed-probe-looks-healthy", "", "target %s: its only probes failed (%s) but Explore.Get reports health %q with series (%d,%d)", t.addr, outcome, r.Health, r.Series, r.TotalSeries)
			}
		}
		logf("probe of %s ends: %q", t.addr, outcome)
	}
	steps := tp.Range("steps", 10, 60)
	for s := 0; s < steps && !e.Failed(); s++ {
		// every action happens at its own fake instant: timers that kvass arms during
		// two different actions (scrape deadlines, retry sleeps) can then never coincide
		sched.Sleep(0)
		w.Settle()
		check()
		pend := w.Net.Pending()
		yields := w.Sch.Pending()
		switch tp.Weighted("next", 4, 5, 3, 2, 1, 3) {
		case 0: // somebody asks for a target
			t := ts[tp.Choose("get_target", len(ts))]
			if t.hash != 0 {
				r := get(t)
				logf("Get %s -> known=%v", t.addr, r != nil)
			}
		case 1: // a probe completes
			if len(pend) > 0 {
				releaseProbe(pend[tp.Choose("probe", len(pend))])
			}
		case 2: // time passes
			d := time.Duration(1+tp.Choose("advance_s", 7)) * time.Second
			sched.Sleep(d)
			logf("advance %s", d)
		case 3: // discovery changes: a target leaves or comes back
			t := ts[tp.Choose("sd_target", len(ts))]
			if member[t.addr] {
				member[t.addr] = false
				forward()
				e.Probe("target_removed")
			} else if !avoidReadd || len(t.probes) == 0 || t.success {
				member[t.addr] = true
				forward()
			}
		case 4: // reload keeping the job, possibly changing its metric relabel rules in place
			if tp.Bool("reload_changes_rules", 1, 2) {
				dropRule = !dropRule
				e.Probe("reload_changes_metric_relabel")
			}
			dr := dropRule
			if caMissing && tp.Bool("ca_file_appears", 1, 2) {
				_ = os.WriteFile(caFile, []byte(testCA), 0o644)
				caMissing = false
				e.Probe("job_client_repaired_by_reload")
			}
			do("reload", func() interface{} { return w.Cfg.ReloadFromRaw([]byte(ConfigTextCA(jobs, dr, caFile))) })
			logf("reload keeping ja (drop rule %v)", dropRule)
			e.Probe("reload_keeps_job")
		case 5:
			if len(yields) > 0 {
				w.Sch.Release(yields[tp.Choose("yield", len(yields))])
			}
		}
	}
	// whatever the last step released must have come to rest before the next action (as at the top of
	// every step): otherwise it races with that action under real parallelism
	sched.Sleep(0)
	w.Settle()
	check()
	if caMissing {
		_ = os.WriteFile(caFile, []byte(testCA), 0o644)
		caMissing = false
		dr := dropRule
		do("reload", func() interface{} { return w.Cfg.ReloadFromRaw([]byte(ConfigTextCA(jobs, dr, caFile))) })
		logf("CA file appears, reload")
	}
	// quiet phase: probes complete promptly, time passes; afterwards every asked,
	// still discovered target must have had its successful probe
	for i := 0; i < 150 && !e.Failed(); i++ {
		w.Settle()
		check()
		if y := w.Sch.Pending(); len(y) > 0 {
			w.Sch.Release(y[0])
			continue
		}
		if p := w.Net.Pending(); len(p) > 0 {
			releaseProbe(p[0])
			continue
		}
		sched.Sleep(time.Second)
	}
	w.Settle()
	check()
	if e.Failed() {
		return
	}
	for _, t := range ts {
		cls := "plain"
		if t.readded {
			cls = "readded"
		}
		if t.inDisc && t.asked {
			// what the coordinator would be told decides; which incarnation of a re-discovered
			// target a probe belonged to cannot be told apart at the transport
			r := get(t)
			good := r != nil && r.Health == pscrape.HealthGood && r.Series == int64(t.keptSeen) && r.TotalSeries == int64(t.total)
			switch {
			case good:
			case !t.success && (r == nil || r.Health != pscrape.HealthGood):
				e.Violate("never-explored", "class="+cls, "target %s stayed discovered and was asked for at %s, but after %d failed probes and a quiet phase of 150 s it still has no successful probe (probes: %d)", t.addr, t.askedAt.Sub(start), t.nFailed, len(t.probes))
			default:
				e.Violate("estimate", "class="+cls, "target %s: successful probe had %d samples (%d kept under the rules in force) but Get returns %+v", t.addr, t.total, t.keptSeen, r)
			}
		}
		var pat []string
		for _, p := range t.probes {
			pat = append(pat, p.outcome)
		}
		sort.Strings(pat)
		e.Key(fmt.Sprintf("failures=%d", len(t.pattern)), cls, fmt.Sprintf("asked=%v", t.asked), fmt.Sprintf("workers=%d", min(workers, 3)))
	}
	e.ProbeN("yield_points_hit", w.Sch.Yields)
	e.AddSim(time.Since(start))
	return hist
}

// a self-signed certificate, only so that the CA file parses
const testCA = `-----BEGIN CERTIFICATE-----
MIIBhTCCASugAwIBAgIQIRi6zePL6mKjOipn+dNuaTAKBggqhkjOPQQDAjASMRAw
DgYDVQQKEwdBY21lIENvMB4XDTE3MTAyMDE5NDMwNloXDTE4MTAyMDE5NDMwNlow
EjEQMA4GA1UEChMHQWNtZSBDbzBZMBMGByqGSM49AgEGCCqGSM49AwEHA0IABD0d
7VNhbWvZLWPuj/RtHFjvtJBEwOkhbN/BnnE8rnZR8+sbwnc/KhCk3FhnpHZnQz7B
5aETbbIgmuvewdjvSBSjYzBhMA4GA1UdDwEB/wQEAwICpDATBgNVHSUEDDAKBggr
BgEFBQcDATAPBgNVHRMBAf8EBTADAQH/MCkGA1UdEQQiMCCCDmxvY2FsaG9zdDo1
NDUzgg4xMjcuMC4wLjE6NTQ1MzAKBggqhkjOPQQDAgNIADBFAiEA2zpJEPQyz6/l
Wf86aX6PepsntZv2GYlA5UpabfT2EZICICpJ5h/iI+i341gBmLiAFQOyTDT+/wQc
6MF9+Yw1Yy0t
-----END CERTIFICATE-----
`
