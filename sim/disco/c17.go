package disco

import (
	"context"
	"fmt"
	"sort"
	"strings"
	"time"

	"github.com/anishathalye/porcupine"
	"github.com/prometheus/prometheus/discovery/targetgroup"

	"kvassverif/core"
	"kvassverif/sched"
	"kvassverif/sidecarsim"

	"tkestack.io/kvass/pkg/discovery"
)

var jobU = []string{"ja", "jb", "jc"}
var addrU = []string{"a1:80", "a2:80", "a3:80", "a4:80"}

// ---- sequential reference model for porcupine -------------------------------------

type jobSet struct {
	present bool
	active  string // sorted, space separated
	dropped string
}

type mState struct {
	jobs map[string]bool
	sets map[string]jobSet
}

func (s mState) canon() string {
	var js []string
	for j := range s.jobs {
		js = append(js, j)
	}
	sort.Strings(js)
	var parts []string
	for _, j := range jobU {
		if x := s.sets[j]; x.present {
			parts = append(parts, fmt.Sprintf("%s:A[%s]D[%s]", j, x.active, x.dropped))
		}
	}
	return strings.Join(js, ",") + "|" + strings.Join(parts, ";")
}

func (s mState) clone() mState {
	n := mState{jobs: map[string]bool{}, sets: map[string]jobSet{}}
	for k, v := range s.jobs {
		n.jobs[k] = v
	}
	for k, v := range s.sets {
		n.sets[k] = v
	}
	return n
}

func (s mState) readActive() string {
	var p []string
	for _, j := range jobU {
		if x := s.sets[j]; x.present {
			p = append(p, j+"=["+x.active+"]")
		}
	}
	return strings.Join(p, ";")
}
func (s mState) readDrop() string {
	var p []string
	for _, j := range jobU {
		if x := s.sets[j]; x.present {
			p = append(p, j+"=["+x.dropped+"]")
		}
	}
	return strings.Join(p, ";")
}
func (s mState) readHash() string {
	var p []string
	for _, j := range jobU {
		if x := s.sets[j]; x.present && x.active != "" {
			for _, a := range strings.Split(x.active, " ") {
				p = append(p, j+"/"+a)
			}
		}
	}
	sort.Strings(p)
	return strings.Join(p, ",")
}

type mInput struct {
	kind string // update | reload | active | drop | hash
	upd  map[string]jobSet
	jobs []string
}

var c17Model = porcupine.Model{
	Init: func() interface{} { return mState{jobs: map[string]bool{}, sets: map[string]jobSet{}} },
	Step: func(st, in, out interface{}) (bool, interface{}) {
		s := st.(mState)
		i := in.(mInput)
		switch i.kind {
		case "update":
			n := s.clone()
			for j, x := range i.upd {
				if n.jobs[j] {
					n.sets[j] = x
				}
			}
			return true, n
		case "reload":
			n := mState{jobs: map[string]bool{}, sets: map[string]jobSet{}}
			for _, j := range i.jobs {
				n.jobs[j] = true
				if x := s.sets[j]; x.present {
					n.sets[j] = x
				}
			}
			return true, n
		case "active":
			return out.(string) == s.readActive(), s
		case "drop":
			return out.(string) == s.readDrop(), s
		case "hash":
			return out.(string) == s.readHash(), s
		}
		return false, s
	},
	Equal: func(a, b interface{}) bool { return a.(mState).canon() == b.(mState).canon() },
	DescribeOperation: func(in, out interface{}) string {
		i := in.(mInput)
		return fmt.Sprintf("%s %v %v -> %v", i.kind, i.upd, i.jobs, out)
	},
}

// ---- the run -------------------------------------------------------------------------

func genUpdate(tp *core.Tape, configured []string, partial bool) (map[string][]*targetgroup.Group, map[string]jobSet, string) {
	u := map[string][]*targetgroup.Group{}
	exp := map[string]jobSet{}
	var desc []string
	for _, j := range jobU {
		// Prometheus' discovery manager emits full maps of the jobs it knows; jobs
		// that were removed meanwhile may still be in an update that is in flight
		in := false
		for _, c := range configured {
			if c == j {
				in = true
			}
		}
		if !in && !tp.Bool("stale_job_in_update", 1, 6) {
			continue
		}
		if partial && tp.Bool("partial_round", 1, 2) {
			continue
		}
		var act, drp []string
		ng := 1 + tp.Choose("n_groups", 2)
		for g := 0; g < ng; g++ {
			var as []string
			for _, a := range addrU {
				switch tp.Weighted("member", 3, 2, 1) {
				case 1:
					as = append(as, a)
					act = append(act, a)
				case 2:
					as = append(as, "!"+a)
					drp = append(drp, a)
				}
			}
			u[j] = append(u[j], Group(fmt.Sprintf("%s-g%d", j, g), as...))
		}
		if _, ok := u[j]; !ok {
			u[j] = []*targetgroup.Group{}
		}
		exp[j] = jobSet{present: true, active: uniqJoin(act), dropped: uniqJoin(drp)}
		desc = append(desc, fmt.Sprintf("%s:A[%s]D[%s]", j, exp[j].active, exp[j].dropped))
	}
	return u, exp, strings.Join(desc, ";")
}

// within one job the same address in two groups differs by the group label, so
// both are distinct targets; the model keeps them as a multiset
func uniqJoin(a []string) string {
	sort.Strings(a)
	return strings.Join(a, " ")
}

func canonActive(m map[string][]*discovery.SDTargets) string {
	var p []string
	for _, j := range jobU {
		ts, ok := m[j]
		if !ok {
			continue
		}
		var as []string
		for _, t := range ts {
			as = append(as, AddrOf(t))
		}
		sort.Strings(as)
		p = append(p, j+"=["+strings.Join(as, " ")+"]")
	}
	for j := range m {
		known := false
		for _, k := range jobU {
			if k == j {
				known = true
			}
		}
		if !known {
			p = append(p, "UNKNOWN-JOB:"+j)
		}
	}
	return strings.Join(p, ";")
}

func canonHash(m map[uint64]*discovery.SDTargets) string {
	var p []string
	for _, t := range m {
		p = append(p, t.Job+"/"+AddrOf(t))
	}
	sort.Strings(p)
	return strings.Join(p, ",")
}

type snap struct {
	m     map[string][]*discovery.SDTargets
	canon string
	kind  string
	at    int
}

func c17Run(tp *core.Tape, e *core.Env) {
	var hist []string
	problem := sidecarsim.InBubble(e.T, func() { hist = c17Bubble(tp, e) })
	if problem != "" {
		e.Undecided("disco engine (C17): %s", problem)
	}
	if len(hist) > 60 {
		hist = hist[:60]
	}
	e.SetSample(map[string]interface{}{"history": hist})
}

func c17Bubble(tp *core.Tape, e *core.Env) (hist []string) {
	start := time.Now()
	w := NewWorld(tp, e, 1+tp.Choose("workers", 3))
	defer w.Close()
	logf := func(f string, a ...interface{}) {
		s := fmt.Sprintf(f, a...)
		hist = append(hist, s)
		e.Logf("%s", s)
	}
	var pops []porcupine.Operation
	type pending struct {
		op  *Op
		in  mInput
		out func(interface{}) interface{}
	}
	var running []*pending
	type inflight struct {
		u    map[string][]*targetgroup.Group
		exp  map[string]jobSet
		call int
		desc string
	}
	var emitted []*inflight   // emitted, not yet delivered
	var delivered []*inflight // delivered to the Run goroutine, translation not yet seen
	var snaps []*snap
	configured := []string{}
	reloadRunning := false
	translatedSeen := 0
	var waitInit *Op
	kinds := map[string]bool{}
	overlap := false

	finish := func(fin []*Op) {
		for _, o := range fin {
			for i, p := range running {
				if p.op == o {
					out := p.out(o.Result)
					pops = append(pops, porcupine.Operation{ClientId: len(pops) % 8, Input: p.in, Call: int64(o.Call), Output: out, Return: int64(o.Ret)})
					logf("[%d..%d] %s -> %v", o.Call, o.Ret, o.Name, out)
					if p.in.kind == "reload" {
						reloadRunning = false
					}
					running = append(running[:i], running[i+1:]...)
					break
				}
			}
		}
		// translations that appeared complete the oldest delivered updates
		for translatedSeen < len(w.Translated) && len(delivered) > 0 {
			d := delivered[0]
			delivered = delivered[1:]
			translatedSeen++
			ret := w.Tick()
			pops = append(pops, porcupine.Operation{ClientId: len(pops) % 8, Input: mInput{kind: "update", upd: d.exp}, Call: int64(d.call), Output: "", Return: int64(ret)})
			logf("[%d..%d] update %s translated", d.call, ret, d.desc)
		}
		// snapshots returned earlier must not change
		for _, s := range snaps {
			if c := canonActive(s.m); c != s.canon {
				e.Violate("snapshot-mutated", "read="+s.kind, "a %s snapshot returned at event %d read %q then, and reads %q now", s.kind, s.at, s.canon, c)
			}
		}
	}
	// run one operation alone to completion (first yield first)
	var carry []*Op // operations that finished while another one was run alone
	alone := func(name string, fn func() interface{}) interface{} {
		o := w.Start(name, fn)
		for i := 0; i < 200; i++ {
			for _, f := range w.Settle() {
				if f != o {
					carry = append(carry, f)
				}
			}
			if o.Done() {
				return o.Result
			}
			if p := w.Sch.Pending(); len(p) > 0 {
				w.Sch.Release(p[0])
			} else if pr := w.Net.Pending(); len(pr) > 0 {
				w.Net.Release(pr[0], "connect", nil)
			} else {
				sched.Sleep(time.Second)
			}
		}
		e.Undecided("operation %s did not finish", name)
		return nil
	}

	// start: first configuration, WaitInit with a fake-clock time-out
	configured = pickJobs(tp, true)
	alone("reload", func() interface{} { return w.Cfg.ReloadFromRaw([]byte(ConfigText(configured))) })
	pops = append(pops, porcupine.Operation{ClientId: 0, Input: mInput{kind: "reload", jobs: configured}, Call: int64(w.Tick()), Output: "", Return: int64(w.Tick())})
	logf("initial reload jobs=%v", configured)
	wiCtx, wiCancel := context.WithTimeout(context.Background(), 40*time.Second)
	defer wiCancel()
	wiStart := time.Now()
	waitInit = w.Start("WaitInit", func() interface{} { return w.TD.WaitInit(wiCtx) })
	firstRound := true
	reloadsSinceWI := 0

	steps := tp.Range("steps", 15, 70)
	for step := 0; step < steps && !e.Failed(); step++ {
		fin := append(carry, w.Settle()...)
		carry = nil
		var mine []*Op
		for _, o := range fin {
			if o == waitInit {
				// must not return before every configured job had a round, unless its context ended
				elapsed := time.Since(wiStart)
				got := alone("ActiveTargets", func() interface{} { return w.TD.ActiveTargets() }).(map[string][]*discovery.SDTargets)
				missing := ""
				for _, j := range configured {
					if _, ok := got[j]; !ok {
						missing = j
					}
				}
				logf("WaitInit returned after %s (missing job %q)", elapsed, missing)
				if missing != "" && wiCtx.Err() == nil && reloadsSinceWI == 0 {
					e.Violate("waitinit-early", "", "WaitInit returned after %s although job %s never had a discovery round and its context is not done", elapsed, missing)
				}
				e.Probe("waitinit_returned")
				waitInit = nil
				continue
			}
			mine = append(mine, o)
		}
		finish(mine)
		if len(running) > 1 || (len(running) == 1 && len(delivered) > 0) {
			overlap = true
		}
		yields := w.Sch.Pending()
		// choose the next thing to happen
		type choice struct {
			w int
			f func()
		}
		var cs []choice
		add := func(weight int, f func()) { cs = append(cs, choice{weight, f}) }
		if len(yields) > 0 {
			add(8, func() {
				p := yields[tp.Choose("release_yield", len(yields))]
				w.Sch.Release(p)
				logf("release %s", p.Site)
			})
		}
		if len(emitted)+len(delivered) < 2 && len(pops)+len(running) < 38 {
			add(3, func() {
				u, exp, desc := genUpdate(tp, configured, firstRound)
				firstRound = false
				emitted = append(emitted, &inflight{u: u, exp: exp, call: w.Tick(), desc: desc})
				logf("emit update %s", desc)
				kinds["update"] = true
			})
		}
		if len(emitted) > 0 {
			add(4, func() {
				d := emitted[0]
				emitted = emitted[1:]
				delivered = append(delivered, d)
				w.SD <- d.u
				logf("deliver update %s", d.desc)
			})
		}
		if !reloadRunning && len(pops)+len(running) < 38 {
			add(2, func() {
				jobs := pickJobs(tp, false)
				p := &pending{in: mInput{kind: "reload", jobs: jobs}, out: func(r interface{}) interface{} { return "" }}
				txt := ConfigText(jobs)
				p.op = w.Start(fmt.Sprintf("reload %v", jobs), func() interface{} { return w.Cfg.ReloadFromRaw([]byte(txt)) })
				running = append(running, p)
				reloadRunning = true
				reloadsSinceWI++
				configured = jobs
				logf("start reload %v", jobs)
				kinds["reload"] = true
			})
		}
		if len(running) < 3 && len(pops)+len(running) < 38 {
			add(4, func() {
				switch tp.Choose("read_kind", 3) {
				case 0:
					p := &pending{in: mInput{kind: "active"}}
					p.out = func(r interface{}) interface{} {
						m := r.(map[string][]*discovery.SDTargets)
						c := canonActive(m)
						snaps = append(snaps, &snap{m: m, canon: c, kind: "active", at: w.seq})
						return c
					}
					p.op = w.Start("ActiveTargets", func() interface{} { return w.TD.ActiveTargets() })
					running = append(running, p)
				case 1:
					p := &pending{in: mInput{kind: "drop"}}
					p.out = func(r interface{}) interface{} {
						m := r.(map[string][]*discovery.SDTargets)
						c := canonActive(m)
						snaps = append(snaps, &snap{m: m, canon: c, kind: "drop", at: w.seq})
						return c
					}
					p.op = w.Start("DropTargets", func() interface{} { return w.TD.DropTargets() })
					running = append(running, p)
				default:
					p := &pending{in: mInput{kind: "hash"}, out: func(r interface{}) interface{} { return canonHash(r.(map[uint64]*discovery.SDTargets)) }}
					p.op = w.Start("ActiveTargetsByHash", func() interface{} { return w.TD.ActiveTargetsByHash() })
					running = append(running, p)
				}
				kinds["read"] = true
			})
		}
		if waitInit != nil || tp.Bool("advance", 1, 8) {
			add(1, func() { sched.Sleep(time.Second); logf("advance 1s") })
		}
		if len(cs) == 0 {
			sched.Sleep(time.Second)
			continue
		}
		ws := make([]int, len(cs))
		for i, c := range cs {
			ws[i] = c.w
		}
		cs[tp.Weighted("next", ws...)].f()
	}
	// drain: deliver what is left, release everything until all operations return
	for _, d := range emitted {
		delivered = append(delivered, d)
		w.SD <- d.u
	}
	emitted = nil
	for i := 0; i < 400 && (len(running) > 0 || len(delivered) > 0); i++ {
		fin := append(carry, w.Settle()...)
		carry = nil
		var mine []*Op
		for _, o := range fin {
			if o != waitInit {
				mine = append(mine, o)
			} else {
				waitInit = nil
			}
		}
		finish(mine)
		if y := w.Sch.Pending(); len(y) > 0 {
			w.Sch.Release(y[tp.Choose("drain_yield", len(y))])
		} else if len(running) > 0 || len(delivered) > 0 {
			sched.Sleep(time.Second)
		}
	}
	if len(running) > 0 || len(delivered) > 0 {
		var names []string
		for _, p := range running {
			names = append(names, p.op.Name)
		}
		e.Undecided("C17: operations %v / %d updates never completed (parked yields: %d)", names, len(delivered), len(w.Sch.Pending()))
		return
	}
	if e.Failed() {
		return
	}
	// quiescent end state: deleted jobs stay deleted, explorer tracks the latest forward
	got := alone("ActiveTargets", func() interface{} { return w.TD.ActiveTargets() }).(map[string][]*discovery.SDTargets)
	for j := range got {
		ok := false
		for _, c := range configured {
			if c == j {
				ok = true
			}
		}
		if !ok {
			e.Violate("deleted-job-present", "", "job %s is not configured (configured: %v) but the active set still has an entry for it: %s", j, configured, canonActive(got))
		}
	}
	if len(w.Translated) > 0 && !e.Failed() {
		// forward the translations one by one; after each forward ask for every target seen so
		// far (asking marks a target as being explored): the explorer must know exactly the
		// targets of the update that was forwarded last
		all := map[uint64]string{}
		for _, t := range w.Translated {
			for j, ts := range t {
				for _, x := range ts {
					all[x.ShardTarget.Hash] = j + "/" + AddrOf(x)
				}
			}
		}
		n := len(w.Translated)
		first := 0
		if n > 4 {
			first = n - 4
		}
		for ti := first; ti < n && !e.Failed(); ti++ {
			tt := w.Translated[ti]
			alone("forward", func() interface{} { w.EX.UpdateTargets(tt); return nil })
			want := map[uint64]bool{}
			for _, ts := range tt {
				for _, t := range ts {
					want[t.ShardTarget.Hash] = true
				}
			}
			for _, h := range sidecarsim.SortedHashes(all) {
				hh := h
				r := alone("Explore.Get", func() interface{} { return w.EX.Get(hh) != nil }).(bool)
				if r != want[h] {
					cls := "stale-target"
					if want[h] {
						cls = "missing-target"
					}
					e.Violate("explorer-tracking", cls, "after forwarding update #%d the explorer knows target %s = %v, expected %v", ti+1, all[h], r, want[h])
					break
				}
			}
		}
		e.Probe("explorer_tracking_checked")
	}
	// linearizability of the recorded history against the sequential model
	if !e.Failed() {
		res := porcupine.CheckOperationsTimeout(c17Model, pops, 10*time.Second)
		switch res {
		case porcupine.Illegal:
			e.Violate("not-linearizable", "", "the history of %d operations (updates, reloads, reads) has no linearization against the sequential model: %s", len(pops), strings.Join(hist, " | "))
		case porcupine.Unknown:
			e.Inconclusive()
		}
	}
	var ks []string
	for k := range kinds {
		ks = append(ks, k)
	}
	sort.Strings(ks)
	if len(ks) >= 2 {
		e.Key(strings.Join(ks, "+"), fmt.Sprintf("overlap=%v", overlap), fmt.Sprintf("ops=%d", len(pops)/8))
	}
	e.ProbeN("yield_points_hit", w.Sch.Yields)
	if overlap {
		e.Probe("operations_overlapped")
	}
	e.AddSim(time.Since(start))
	return hist
}

func pickJobs(tp *core.Tape, nonEmpty bool) []string {
	var js []string
	for _, j := range jobU {
		if tp.Bool("job_in_config", 3, 5) {
			js = append(js, j)
		}
	}
	if len(js) == 0 && nonEmpty {
		js = []string{"ja"}
	}
	return js
}
