package disco

import (
	"time"

	"kvassverif/core"
)

var realDisco = []string{"discovery.TargetsDiscovery (Run goroutine, ApplyConfig, readers, WaitInit)", "explore.Explore (worker pool, retry goroutines)", "prom.ConfigManager callback chain as in cmd/kvass/coordinator.go", "scrape.Manager / Scraper / VictoriaMetrics parser for probes", "lock acquisition order: every Lock() in pkg/discovery and pkg/explore is a scheduling point"}
var stubDisco = []string{"Prometheus SD manager (the simulation emits full target-group maps and partial first rounds)", "forwarder goroutine of cmd (simulation decides when a translation reaches the explorer)", "probe targets (parking transport with drawn outcomes)"}

func init() {
	core.Register(&core.Spec{
		ID: "C02", Engine: "disco", Run: c02Run,
		QuickRuns: 6000, ThorRuns: 200000, QuickCap: 60 * time.Second, ThorCap: 12 * time.Minute,
		Rule: "a run draws one scrape job (scheme, metrics path, multi-valued params, honor flags, 0-3 relabel rules from: labelmap of meta labels, replace into a label / __address__ / __scheme__ / __metrics_path__ / __param_x / a config param / job, drop, keep, labeldrop, labelkeep, hashmod) and 1-3 target groups (addresses with and without port, IPv6 literals, group vs target labels, meta labels, label names invalid for Prometheus, duplicates inside and across groups, targets dropped by relabeling, instances that fail population) and pushes them through the real parties in sequence: TargetsDiscovery -> ActiveTargetsByHash -> JSON -> real sidecar POST route -> injector file -> config.Load + scrape.TargetsFromGroup (Prometheus stub) -> real proxy -> URL seen at the target; the multiset of (final labels, scheme, host, path, query) must equal that of scrape.TargetsFromGroup on the original job, de-duplicated as the scrape pool does; a case is the set of generator features present",
		Real: []string{"discovery.TargetsDiscovery", "shard.UpdateTargetsRequest JSON", "sidecar.Service / TargetsManager / Injector / Proxy", "scrape.Scraper (URL really requested)"},
		Stub: []string{"Prometheus of the shard (real config.Load + scrape.TargetsFromGroup on the generated file)", "the reference is the vendored Prometheus library on the original job", "targets (record the request URL)"},
		SchedLabels: []string{"next", "release_yield", "drain_yield", "yield", "probe", "read_kind", "workers", "get_target", "sd_target", "advance_s", "label_order_salt?", "label_order_salt.a", "label_order_salt.b", "target_order", "group_of", "group_order", "new_instance"},
		Assume: []string{"input-dominated property (DESIGN 6): no fault kind applies; the simulated part is the chain of real parties and encodings"},
	})
	core.Register(&core.Spec{
		ID: "C15", Engine: "disco", Run: c15Run,
		QuickRuns: 3000, ThorRuns: 200000, QuickCap: 60 * time.Second, ThorCap: 12 * time.Minute,
		Rule: "a run draws 1-4 base targets (two jobs with different scheme/path/params/relabeling), for each up to 3 near-duplicate pairs that differ in exactly one component (label value, added label, address, port, path, scheme, param label, param overriding a config param), exact duplicates and meta-label-only differences, and feeds the same logical targets through the real TargetsDiscovery.Run in 2-5 rounds with drawn target order, group assignment and order, group/target label split and map-iteration salt (label order), re-created TargetsDiscovery instances and a child OS process; a case is (what was varied: round | instance | process, groups, lifted labels) or (component in which a pair differs)",
		Real: []string{"discovery.TargetsDiscovery (Run, translate, ActiveTargetsByHash)", "prom.ConfigManager", "a separate OS process"},
		Stub: []string{"Prometheus SD manager (sim emits the target groups)"},
		SchedLabels: []string{"next", "release_yield", "drain_yield", "yield", "probe", "read_kind", "workers", "get_target", "sd_target", "advance_s", "label_order_salt?", "label_order_salt.a", "label_order_salt.b", "target_order", "group_of", "group_order", "new_instance"},
		Assume: []string{"input-dominated property (DESIGN 6): the simulated dimensions are discovery rounds, emission order, label iteration order, instance re-creation and a second process"},
	})
	core.Register(&core.Spec{
		ID: "C20", Engine: "disco", Run: c20Run,
		QuickRuns: 30000, ThorRuns: 150000, QuickCap: 60 * time.Second, ThorCap: 12 * time.Minute,
		Rule: "a run has 1-5 targets, each with a drawn pattern of 0-5 probe failures (connect, non-200, body break - closed early or connection reset -, time-out on the fake clock) before its first success, 1-8 explorer workers, and a drawn interleaving of Get calls, probe completions (parked at the probe transport and released in drawn order), fake-clock advances, discovery updates removing / re-adding targets (also inside the retry wait), reloads keeping the job, and lock-acquisition order at the explorer's yield points; checked at the transport: no probe before the first Get, at most one probe per target in flight, no probe after success, retry not in the same instant, at most one queued probe after removal; after a quiet phase every asked discovered target has succeeded and Get / the shard target carry the probe's (kept,total); a case is (failures before success) x (plain | readded) x asked? x workers",
		Real: realDisco, Stub: stubDisco, TapeCap: 20000,
		SchedLabels: []string{"next", "release_yield", "drain_yield", "yield", "probe", "read_kind", "workers", "get_target", "sd_target", "advance_s", "label_order_salt?", "label_order_salt.a", "label_order_salt.b", "target_order", "group_of", "group_order", "new_instance"},
		Assume: []string{"a parked probe is never held longer than the job's scrape time-out (the transport honours the request context)", "retry liveness is asserted after a 150 s quiet phase rather than with a per-retry deadline (the statement gives no bound; the README's 5 s is not used)"},
	})
	core.Register(&core.Spec{
		ID: "C17", Engine: "disco", Run: c17Run,
		QuickRuns: 30000, ThorRuns: 150000, QuickCap: 60 * time.Second, ThorCap: 12 * time.Minute,
		Rule: "a run is a drawn interleaving of up to ~38 operations over 3 jobs x 4 addresses: asynchronous discovery updates (emit = invoke, translation appearing on ActiveTargetsChan = return; full maps incl. stale jobs, partial first rounds), reloads adding/removing/keeping jobs, readers (ActiveTargets, DropTargets, ActiveTargetsByHash), with every goroutine parked before each Lock() in pkg/discovery and pkg/explore and released in drawn order, so reads and reloads overlap in-flight updates inside their critical-section sequence; the history (stamped with event sequence numbers) is checked with porcupine against a sequential model, plus snapshot immutability, WaitInit, end-state (deleted jobs absent, explorer tracks the latest forward); a case is (operation kinds mixed) x overlapped? x length class; trivial = a single kind",
		Real: realDisco, Stub: stubDisco, TapeCap: 20000,
		SchedLabels: []string{"next", "release_yield", "drain_yield", "yield", "probe", "read_kind", "workers", "get_target", "sd_target", "advance_s", "label_order_salt?", "label_order_salt.a", "label_order_salt.b", "target_order", "group_of", "group_order", "new_instance"},
		Assume: []string{"an update's effect may be placed anywhere between its emission and the appearance of its translation (wider than reality, never stricter)", "porcupine time-outs are counted inconclusive, never violations"},
	})
}
