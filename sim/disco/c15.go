package disco

import (
	"context"
	"encoding/json"
	"flag"
	"fmt"
	"os"
	"os/exec"
	"path/filepath"
	"sort"
	"strings"
	"testing/synctest"

	"github.com/prometheus/common/model"
	"github.com/prometheus/prometheus/discovery/targetgroup"

	"kvassverif/core"
	"kvassverif/cycle"
	"kvassverif/sidecarsim"

	"tkestack.io/kvass/pkg/discovery"
	"tkestack.io/kvass/pkg/prom"
	"tkestack.io/kvass/pkg/verifhook"
)

const c15Config = `global:
  scrape_interval: 15s
scrape_configs:
- job_name: ja
  params:
    module: [http_2xx]
  relabel_configs:
  - regex: __meta_label_(.+)
    action: labelmap
  - source_labels: [drop]
    regex: "yes"
    action: drop
  static_configs:
  - targets: ['placeholder:1']
- job_name: jb
  metrics_path: /probe
  scheme: https
  static_configs:
  - targets: ['placeholder:1']
`

// logical target: the label set an SD provider discovered for it
type lTarget struct {
	ID     string            `json:"id"`
	Job    string            `json:"job"`
	Labels map[string]string `json:"labels"`
	// variantOf / component: a near-duplicate differing from another target in one component
	VariantOf string `json:"variant_of,omitempty"`
	Component string `json:"component,omitempty"`
	// sameAs: must collapse with / hash like another target
	SameAs string `json:"same_as,omitempty"`
}

type c15Round struct {
	Groups [][]int  `json:"groups"` // indexes into the target list, per group, in emission order
	Salt   uint64   `json:"salt"`
	Lift   []string `json:"lift"` // label names moved to group level where all members agree
	// Both: label names that are ALSO set at group level although every target sets them
	// itself (the target's value wins); BothOther: the group carries another value
	Both      []string `json:"both,omitempty"`
	BothOther bool     `json:"both_other,omitempty"`
}

type c15Spec struct {
	Targets []*lTarget `json:"targets"`
	Round   c15Round   `json:"round"`
}

func buildUpdate(ts []*lTarget, r c15Round) map[string][]*targetgroup.Group {
	u := map[string][]*targetgroup.Group{"ja": {}, "jb": {}}
	for gi, idxs := range r.Groups {
		if len(idxs) == 0 {
			continue
		}
		job := ts[idxs[0]].Job
		g := &targetgroup.Group{Source: fmt.Sprintf("g%d", gi), Labels: model.LabelSet{}}
		both := map[string]bool{}
		// labels every member agrees on may live at group level
		for _, ln := range r.Lift {
			v, all := "", true
			for k, i := range idxs {
				x, ok := ts[i].Labels[ln]
				if !ok || (k > 0 && x != v) {
					all = false
				}
				v = x
			}
			if all && ln != model.AddressLabel {
				g.Labels[model.LabelName(ln)] = model.LabelValue(v)
			}
		}
		for _, ln := range r.Both {
			if _, lifted := g.Labels[model.LabelName(ln)]; lifted || ln == model.AddressLabel {
				continue
			}
			all := true
			for _, i := range idxs {
				if _, ok := ts[i].Labels[ln]; !ok {
					all = false
				}
			}
			if !all {
				continue
			}
			v := ts[idxs[0]].Labels[ln]
			if r.BothOther {
				v = "group-level-" + v
			}
			both[ln] = true
			g.Labels[model.LabelName(ln)] = model.LabelValue(v)
		}
		for _, i := range idxs {
			ls := model.LabelSet{}
			for k, v := range ts[i].Labels {
				if _, lifted := g.Labels[model.LabelName(k)]; lifted && !both[k] {
					continue
				}
				ls[model.LabelName(k)] = model.LabelValue(v)
			}
			g.Targets = append(g.Targets, ls)
		}
		u[job] = append(u[job], g)
	}
	return u
}

// hashesOf feeds one update through a fresh or given TargetsDiscovery and returns id -> hashes seen.
func hashesOf(td *discovery.TargetsDiscovery, sd chan map[string][]*targetgroup.Group, ts []*lTarget, r c15Round) (map[string][]uint64, int) {
	verifhook.SetSalt(r.Salt)
	sd <- buildUpdate(ts, r)
	synctest.Wait()
	for len(td.ActiveTargetsChan()) > 0 {
		<-td.ActiveTargetsChan()
	}
	verifhook.SetSalt(0)
	out := map[string][]uint64{}
	m := td.ActiveTargetsByHash()
	for h, t := range m {
		id := t.ShardTarget.Labels.Get("id")
		out[id] = append(out[id], h)
		if t.ShardTarget.Hash != h {
			out["BAD-KEY"] = append(out["BAD-KEY"], h)
		}
	}
	for _, v := range out {
		sort.Slice(v, func(a, b int) bool { return v[a] < v[b] })
	}
	return out, len(m)
}

func newTD() (*discovery.TargetsDiscovery, chan map[string][]*targetgroup.Group, context.CancelFunc, error) {
	td := discovery.New(cycle.Quiet())
	cm := prom.NewConfigManager()
	cm.AddReloadCallbacks(td.ApplyConfig)
	if err := cm.ReloadFromRaw([]byte(c15Config)); err != nil {
		return nil, nil, nil, err
	}
	ctx, cancel := context.WithCancel(context.Background())
	sd := make(chan map[string][]*targetgroup.Group, 4)
	go func() { _ = td.Run(ctx, sd) }()
	return td, sd, cancel, nil
}

func c15Child(args []string) int {
	fs := flag.NewFlagSet("c15child", flag.ContinueOnError)
	in := fs.String("in", "", "")
	if fs.Parse(args) != nil {
		return 2
	}
	b, err := os.ReadFile(*in)
	if err != nil {
		return 2
	}
	var sp c15Spec
	if json.Unmarshal(b, &sp) != nil {
		return 2
	}
	td := discovery.New(cycle.Quiet())
	cm := prom.NewConfigManager()
	cm.AddReloadCallbacks(td.ApplyConfig)
	if err := cm.ReloadFromRaw([]byte(c15Config)); err != nil {
		return 3
	}
	ctx, cancel := context.WithCancel(context.Background())
	defer cancel()
	sd := make(chan map[string][]*targetgroup.Group, 1)
	go func() { _ = td.Run(ctx, sd) }()
	verifhook.SetSalt(sp.Round.Salt)
	sd <- buildUpdate(sp.Targets, sp.Round)
	<-td.ActiveTargetsChan()
	out := map[string][]uint64{}
	for h, t := range td.ActiveTargetsByHash() {
		id := t.ShardTarget.Labels.Get("id")
		out[id] = append(out[id], h)
	}
	for _, v := range out {
		sort.Slice(v, func(a, b int) bool { return v[a] < v[b] })
	}
	ob, _ := json.Marshal(out)
	fmt.Println("HASHES", string(ob))
	return 0
}

func init() { core.RegisterCommand("c15child", c15Child) }

func genC15Targets(tp *core.Tape) []*lTarget {
	var ts []*lTarget
	n := 1 + tp.Choose("n_base", 4)
	for i := 0; i < n; i++ {
		job := core.Pick(tp, "job", "ja", "jb")
		base := &lTarget{ID: fmt.Sprintf("t%d", i), Job: job, Labels: map[string]string{
			model.AddressLabel: fmt.Sprintf("host%d.example:%d", i, 9100+tp.Choose("port", 3)),
			"id":               fmt.Sprintf("t%d", i), "env": core.Pick(tp, "env", "prod", "dev"),
		}}
		if tp.Bool("meta", 1, 2) {
			base.Labels["__meta_label_team"] = core.Pick(tp, "team", "a", "b")
			base.Labels["__meta_other"] = "x"
		}
		if tp.Bool("own_path", 1, 3) {
			base.Labels[model.MetricsPathLabel] = "/custom"
		}
		if tp.Bool("own_param", 1, 3) {
			base.Labels["__param_target"] = "http://probe.me/?q=1"
		}
		ts = append(ts, base)
		clone := func(id string) *lTarget {
			c := &lTarget{ID: id, Job: job, Labels: map[string]string{}}
			for k, v := range base.Labels {
				c.Labels[k] = v
			}
			return c
		}
		// near-duplicates: exactly one component differs; they keep the same "id" label on
		// purpose, so only that component tells them apart
		nv := tp.Choose("n_variants", 4)
		for k := 0; k < nv; k++ {
			v := clone(fmt.Sprintf("t%d.v%d", i, k))
			v.VariantOf = base.ID
			switch core.Pick(tp, "variant", "label-value", "label-added", "address", "port", "path", "scheme", "param") {
			case "label-value":
				v.Component = "label-value"
				v.Labels["env"] = base.Labels["env"] + "2"
			case "label-added":
				v.Component = "label-added"
				v.Labels["extra"] = "1"
			case "address":
				v.Component = "address"
				v.Labels[model.AddressLabel] = "other-" + base.Labels[model.AddressLabel]
			case "port":
				v.Component = "port"
				v.Labels[model.AddressLabel] = strings.Split(base.Labels[model.AddressLabel], ":")[0] + ":9999"
			case "path":
				v.Component = "path"
				v.Labels[model.MetricsPathLabel] = "/other"
			case "scheme":
				v.Component = "scheme"
				if job == "jb" {
					v.Labels[model.SchemeLabel] = "http"
				} else {
					v.Labels[model.SchemeLabel] = "https"
				}
			case "param":
				v.Component = "param"
				v.Labels["__param_target"] = "http://probe.me/?q=2"
			}
			// the variant label marks it so that the oracle can find it
			v.Labels["variant"] = fmt.Sprint(k)
			// give the base the same marker-free identity: variants differ from base in the
			// component AND the marker; so compare variants pairwise instead
			ts = append(ts, v)
			// a twin of the variant that differs from it ONLY in the component
			tw := clone(fmt.Sprintf("t%d.v%d.base", i, k))
			tw.Labels["variant"] = fmt.Sprint(k)
			tw.VariantOf = v.ID
			tw.Component = "twin"
			ts = append(ts, tw)
		}
		// exact duplicates (must collapse) and meta-only differences (same final labels)
		if tp.Bool("dup", 1, 2) {
			d := clone(base.ID + ".dup")
			d.SameAs = base.ID
			ts = append(ts, d)
		}
		if tp.Bool("meta_only_diff", 1, 3) {
			d := clone(base.ID + ".meta")
			d.Labels["__meta_other"] = "different"
			d.SameAs = base.ID
			ts = append(ts, d)
		}
	}
	return ts
}

func drawRound(tp *core.Tape, ts []*lTarget) c15Round {
	r := c15Round{Salt: tp.Salt("label_order_salt")}
	// groups never mix jobs
	byJob := map[string][]int{}
	for i, t := range ts {
		byJob[t.Job] = append(byJob[t.Job], i)
	}
	for _, job := range []string{"ja", "jb"} {
		idx := byJob[job]
		if len(idx) == 0 {
			continue
		}
		p := tp.Perm("target_order", len(idx))
		ng := 1 + tp.Choose("n_groups", 3)
		gs := make([][]int, ng)
		for k, pi := range p {
			g := tp.Choose("group_of", ng)
			_ = k
			gs[g] = append(gs[g], idx[pi])
		}
		for _, g := range gs {
			if len(g) > 0 {
				r.Groups = append(r.Groups, g)
			}
		}
	}
	gp := tp.Perm("group_order", len(r.Groups))
	og := make([][]int, len(r.Groups))
	for i, k := range gp {
		og[i] = r.Groups[k]
	}
	r.Groups = og
	for _, ln := range []string{"env", "__meta_label_team", "__meta_other", model.MetricsPathLabel, "__param_target", "id", "variant"} {
		if tp.Bool("lift", 1, 2) {
			r.Lift = append(r.Lift, ln)
		}
	}
	for _, ln := range []string{"env", "id", "variant", "__meta_other", "__param_target"} {
		if tp.Bool("both_levels", 1, 4) {
			r.Both = append(r.Both, ln)
		}
	}
	r.BothOther = tp.Bool("both_other_value", 1, 2)
	return r
}

func c15Run(tp *core.Tape, e *core.Env) {
	problem := sidecarsim.InBubble(e.T, func() { c15Bubble(tp, e) })
	if problem != "" {
		e.Undecided("disco engine (C15): %s", problem)
	}
}

func c15Bubble(tp *core.Tape, e *core.Env) {
	ts := genC15Targets(tp)
	td, sd, cancel, err := newTD()
	if err != nil {
		e.Undecided("config: %v", err)
		return
	}
	defer func() { cancel(); synctest.Wait() }()
	e.SetSample(map[string]interface{}{"targets": ts})
	var first map[string][]uint64
	var firstRound c15Round
	rounds := 2 + tp.Choose("rounds", 4)
	for r := 0; r < rounds && !e.Failed(); r++ {
		what := "round"
		if r > 0 && tp.Bool("new_instance", 1, 3) {
			// "coordinator restart": a new TargetsDiscovery
			cancel()
			synctest.Wait()
			td, sd, cancel, err = newTD()
			if err != nil {
				e.Undecided("config: %v", err)
				return
			}
			what = "instance"
			e.Probe("discovery_recreated")
		}
		rd := drawRound(tp, ts)
		hs, _ := hashesOf(td, sd, ts, rd)
		e.Logf("round %d: %d ids", r, len(hs))
		if len(hs["BAD-KEY"]) > 0 {
			e.Violate("key-differs-from-hash", "", "ActiveTargetsByHash is keyed by a value that is not the target's Hash field")
		}
		if r == 0 {
			first, firstRound = hs, rd
			// collapse / discrimination on the first round
			byID := map[string]*lTarget{}
			for _, t := range ts {
				byID[t.ID] = t
			}
			for _, t := range ts {
				id := t.Labels["id"]
				_ = id
			}
			checkC15Structure(e, ts, td)
			continue
		}
		_ = firstRound
		if !sameHashes(first, hs) {
			perm := "order-or-split"
			if rd.Salt != firstRound.Salt {
				perm = "order-split-or-label-iteration"
			}
			e.Violate("unstable", "across="+what+",permuted="+perm, "hashes differ between discovery rounds of the same logical targets:\nfirst %v\n  now %v", first, hs)
		}
		e.Key(what, fmt.Sprintf("groups=%d", len(rd.Groups)), fmt.Sprintf("lift=%d", len(rd.Lift)/3))
	}
	// a separate OS process
	if !e.Failed() && tp.Bool("child_process", 1, 3) {
		rd := drawRound(tp, ts)
		dir := filepath.Join(e.Scratch, fmt.Sprintf("c15-%d", e.RunIndex))
		_ = os.MkdirAll(dir, 0o755)
		defer os.RemoveAll(dir)
		b, _ := json.Marshal(c15Spec{Targets: ts, Round: rd})
		f := filepath.Join(dir, "in.json")
		_ = os.WriteFile(f, b, 0o644)
		cmd := exec.Command(core.Self(), "c15child", "-in", f)
		cmd.Env = append(os.Environ(), "GOMAXPROCS=1")
		out, _ := cmd.CombinedOutput()
		var got map[string][]uint64
		for _, ln := range strings.Split(string(out), "\n") {
			if strings.HasPrefix(ln, "HASHES ") {
				_ = json.Unmarshal([]byte(strings.TrimPrefix(ln, "HASHES ")), &got)
			}
		}
		if got == nil {
			e.Undecided("child process gave no hashes: %s", string(out))
			return
		}
		e.Probe("child_process_compared")
		if !sameHashes(first, got) {
			e.Violate("unstable", "across=process", "another process computes different hashes for the same targets:\n here %v\nchild %v", first, got)
		}
		e.Key("process")
	}
}

func sameHashes(a, b map[string][]uint64) bool {
	if len(a) != len(b) {
		return false
	}
	for k, v := range a {
		w := b[k]
		if len(v) != len(w) {
			return false
		}
		for i := range v {
			if v[i] != w[i] {
				return false
			}
		}
	}
	return true
}

// checkC15Structure: equal labels+URL collapse, one differing component separates.
func checkC15Structure(e *core.Env, ts []*lTarget, td *discovery.TargetsDiscovery) {
	m := td.ActiveTargetsByHash()
	// find the hash of a logical target by re-deriving its distinguishing final labels
	find := func(t *lTarget) (uint64, bool) {
		var matches []uint64
		for h, x := range m {
			l := x.ShardTarget.Labels
			if l.Get("id") != t.Labels["id"] || l.Get("variant") != t.Labels["variant"] || l.Get("extra") != t.Labels["extra"] || l.Get("env") != t.Labels["env"] {
				continue
			}
			// address: kvass completes the port only when absent; ours always carry one
			if l.Get(model.AddressLabel) != t.Labels[model.AddressLabel] {
				continue
			}
			wantPath := t.Labels[model.MetricsPathLabel]
			if wantPath == "" {
				wantPath = map[string]string{"ja": "/metrics", "jb": "/probe"}[t.Job]
			}
			wantScheme := t.Labels[model.SchemeLabel]
			if wantScheme == "" {
				wantScheme = map[string]string{"ja": "http", "jb": "https"}[t.Job]
			}
			if l.Get(model.MetricsPathLabel) != wantPath || l.Get(model.SchemeLabel) != wantScheme {
				continue
			}
			u := x.PromTarget.URL().Query()
			if p, ok := t.Labels["__param_target"]; ok && u.Get("target") != p {
				continue
			}
			if _, ok := t.Labels["__param_target"]; !ok && u.Get("target") != "" {
				continue
			}
			if p, ok := t.Labels["__param_module"]; ok && u.Get("module") != p {
				continue
			}
			if _, ok := t.Labels["__param_module"]; !ok && t.Job == "ja" && u.Get("module") != "http_2xx" {
				continue
			}
			matches = append(matches, h)
		}
		if len(matches) == 0 {
			return 0, false
		}
		sort.Slice(matches, func(a, b int) bool { return matches[a] < matches[b] })
		if len(matches) > 1 {
			e.Violate("not-collapsed", "kind=identical-final-labels-and-url", "%d active targets have the final labels and URL of logical target %s but different hashes %v", len(matches), t.ID, matches)
		}
		return matches[0], true
	}
	byID := map[string]*lTarget{}
	for _, t := range ts {
		byID[t.ID] = t
	}
	hashOf := map[string]uint64{}
	for _, t := range ts {
		h, ok := find(t)
		if !ok {
			e.Violate("target-missing", "kind="+kindOf(t), "logical target %s (%v) is not among the active targets", t.ID, t.Labels)
			return
		}
		hashOf[t.ID] = h
	}
	for _, t := range ts {
		if t.SameAs != "" && hashOf[t.ID] != hashOf[t.SameAs] {
			e.Violate("not-collapsed", "kind="+kindOf(t), "%s has the same final labels and URL as %s but a different hash", t.ID, t.SameAs)
		}
		if t.Component == "twin" {
			v := byID[t.VariantOf]
			if hashOf[t.ID] == hashOf[v.ID] {
				e.Violate("collision", "component="+v.Component, "targets %s and %s differ only in their %s but have the same hash %d", v.ID, t.ID, v.Component, hashOf[t.ID])
			}
			e.Key("differs-in", v.Component)
		}
	}
}

func kindOf(t *lTarget) string {
	switch {
	case t.SameAs != "":
		return "duplicate"
	case t.Component != "":
		return "variant:" + t.Component
	}
	return "base"
}
