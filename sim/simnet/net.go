// Package simnet is the simulated network between the coordinator and the
// sidecars (and, for scrapes, between sidecars/explorer and targets). Every
// request parks in RoundTrip until the simulation loop releases it with a
// verdict; the released goroutine then runs the destination's handler itself.
// Seam-side goroutines never log and never draw: the simulation loop does both
// after synctest.Wait(), in a canonical order.
package simnet

import (
	"bytes"
	"errors"
	"fmt"
	"io"
	"net/http"
	"net/http/httptest"
	"sort"
	"sync"
)

type Verdict int

const (
	Deliver      Verdict = iota // handler runs, client gets the response
	FailBefore                  // connection refused: handler does not run
	LoseResponse                // handler runs, client gets a transport error
)

func (v Verdict) String() string {
	return [...]string{"deliver", "fail-before", "lose-response"}[v]
}

// Call is one request in flight or completed.
type Call struct {
	Host    string
	Method  string
	Path    string // path?query
	ReqBody []byte
	Header  http.Header

	Seq       int // release order, set by the sim loop
	Verdict   Verdict
	Delivered bool
	Status    int
	RespBody  []byte
	RespHdr   http.Header
	Done      bool

	arrive  int
	verdict chan Verdict
}

func (c *Call) Key() string {
	return fmt.Sprintf("%s %s %s %x", c.Host, c.Method, c.Path, len(c.ReqBody))
}

// ClientOK: the client obtained an HTTP response (of any status).
func (c *Call) ClientGotResponse() bool { return c.Delivered && c.Verdict == Deliver }

type Net struct {
	mu       sync.Mutex
	pending  []*Call
	handlers map[string]http.Handler
	arrivals int
	seq      int
	Log      []*Call
}

func New() *Net { return &Net{handlers: map[string]http.Handler{}} }

func (n *Net) Handle(host string, h http.Handler) {
	n.mu.Lock()
	defer n.mu.Unlock()
	n.handlers[host] = h
}

func (n *Net) Unhandle(host string) {
	n.mu.Lock()
	defer n.mu.Unlock()
	delete(n.handlers, host)
}

var ErrRefused = errors.New("dial tcp: connect: connection refused (simulated)")
var ErrReset = errors.New("read: connection reset by peer (simulated)")

// RoundTrip implements http.RoundTripper.
func (n *Net) RoundTrip(req *http.Request) (*http.Response, error) {
	var body []byte
	if req.Body != nil {
		body, _ = io.ReadAll(req.Body)
		_ = req.Body.Close()
	}
	p := req.URL.Path
	if req.URL.RawQuery != "" {
		p += "?" + req.URL.RawQuery
	}
	c := &Call{Host: req.URL.Host, Method: req.Method, Path: p, ReqBody: body, Header: req.Header.Clone(), verdict: make(chan Verdict, 1)}
	n.mu.Lock()
	n.arrivals++
	c.arrive = n.arrivals
	n.pending = append(n.pending, c)
	n.mu.Unlock()

	v := <-c.verdict
	c.Verdict = v
	if v == FailBefore {
		c.Done = true
		return nil, ErrRefused
	}
	n.mu.Lock()
	h := n.handlers[req.URL.Host]
	n.mu.Unlock()
	if h == nil {
		c.Verdict = FailBefore
		c.Done = true
		return nil, ErrRefused
	}
	r2 := req.Clone(req.Context())
	r2.Body = io.NopCloser(bytes.NewReader(body))
	r2.RequestURI = p
	rr := httptest.NewRecorder()
	h.ServeHTTP(rr, r2)
	c.Delivered = true
	c.Status = rr.Code
	c.RespBody = append([]byte(nil), rr.Body.Bytes()...)
	c.RespHdr = rr.Header().Clone()
	c.Done = true
	if v == LoseResponse {
		return nil, ErrReset
	}
	res := rr.Result()
	res.Request = req
	return res, nil
}

// Pending returns the parked calls in a canonical order that does not depend
// on arrival order: by host, then method/path/body, then arrival among equals.
func (n *Net) Pending() []*Call {
	n.mu.Lock()
	defer n.mu.Unlock()
	out := append([]*Call(nil), n.pending...)
	sort.SliceStable(out, func(a, b int) bool {
		if out[a].Host != out[b].Host {
			return out[a].Host < out[b].Host
		}
		ka, kb := out[a].Key(), out[b].Key()
		if ka != kb {
			return ka < kb
		}
		if !bytes.Equal(out[a].ReqBody, out[b].ReqBody) {
			return bytes.Compare(out[a].ReqBody, out[b].ReqBody) < 0
		}
		return out[a].arrive < out[b].arrive
	})
	return out
}

// Release lets one parked call proceed. The caller must synctest.Wait()
// afterwards before looking at the call's result.
func (n *Net) Release(c *Call, v Verdict) {
	n.mu.Lock()
	for i, p := range n.pending {
		if p == c {
			n.pending = append(n.pending[:i], n.pending[i+1:]...)
			break
		}
	}
	n.seq++
	c.Seq = n.seq
	n.Log = append(n.Log, c)
	n.mu.Unlock()
	c.verdict <- v
}

// AbortAll fails every parked call (used at the end of a run).
func (n *Net) AbortAll() {
	for _, c := range n.Pending() {
		n.Release(c, FailBefore)
	}
}

// Seq returns the number of calls released so far.
func (n *Net) Seq() int {
	n.mu.Lock()
	defer n.mu.Unlock()
	return n.seq
}
