package world

import (
	"fmt"
	"os"
	"path/filepath"
	"sort"
	"strings"
	"time"

	"kvassverif/cyc"
)

func writeFile(p *Pod, text string) error {
	return os.WriteFile(filepath.Join(p.Dir, "prometheus.env.yaml"), []byte(text), 0o644)
}

// trackEmpty keeps the harness' own record of since when each pod scrapes nothing.
func (w *World) trackEmpty(now time.Time) {
	for _, p := range w.CL.AllPods() {
		if !p.Running {
			continue
		}
		st, err := p.SC.GetStatus()
		if err != nil {
			continue
		}
		if len(st) == 0 {
			if p.EmptySince == nil {
				t := now
				p.EmptySince = &t
			}
		} else {
			p.EmptySince = nil
		}
	}
}

// converged evaluates the C03 end-state predicate on the real sidecars.
func (w *World) converged() (bool, []string) {
	var stuck []string
	for _, r := range w.CL.Reps {
		holders := w.Holders(r.Idx)
		known := map[string]bool{}
		for _, t := range w.SC.Targets {
			known[t.Addr] = true
			hs := holders[t.Addr]
			normal, transfer := 0, 0
			for _, st := range hs {
				if st == "" {
					normal++
				} else {
					transfer++
				}
			}
			cls := w.SC.Class(t)
			if transfer > 0 {
				if normal+transfer == 1 {
					stuck = append(stuck, "in-transfer:no-other-holder")
				} else if normal == 0 {
					stuck = append(stuck, "in-transfer:other-holder-in-transfer")
				} else {
					stuck = append(stuck, "in-transfer:other-holder-normal")
				}
				continue
			}
			switch cls {
			case "eligible":
				if normal == 0 {
					stuck = append(stuck, "unscraped:eligible")
				} else if normal > 1 {
					stuck = append(stuck, "duplicate")
				}
			case "oversized":
				if normal > 0 && w.everAssignedByCoordinator(r.Idx, t.Addr) {
					stuck = append(stuck, "assigned:oversized")
				}
			case "undiscovered":
				if normal > 0 {
					stuck = append(stuck, "held:undiscovered")
				}
			default: // unhealthy, at-limit: not asserted, but never duplicated for ever is not claimed either
			}
		}
		for a := range holders {
			if !known[a] {
				stuck = append(stuck, "held:unknown-target")
			}
		}
	}
	sort.Strings(stuck)
	return len(stuck) == 0, stuck
}

// everAssignedByCoordinator: an oversized target that only sits on a shard because
// the scenario's arbitrary initial placement put it there (or because it grew
// after it was assigned) was not *assigned* although too large.
func (w *World) everAssignedByCoordinator(rep int, addr string) bool {
	return w.assignedOversized[fmt.Sprintf("%d/%s", rep, addr)]
}

func (w *World) assignmentSig() string {
	var parts []string
	for _, r := range w.CL.Reps {
		h := w.Holders(r.Idx)
		for _, a := range sortedKeys(h) {
			var ps []string
			for _, p := range sortedKeys(h[a]) {
				ps = append(ps, p+":"+h[a][p])
			}
			parts = append(parts, a+"="+strings.Join(ps, ","))
		}
	}
	return strings.Join(parts, ";")
}

// stuckClass picks one categorical class for the signature (priority order).
func stuckClass(stuck []string) string {
	prio := []string{"in-transfer:no-other-holder", "in-transfer:other-holder-in-transfer", "in-transfer:other-holder-normal", "duplicate", "unscraped:eligible", "assigned:oversized", "held:undiscovered", "held:unknown-target"}
	for _, p := range prio {
		for _, s := range stuck {
			if s == p {
				return p
			}
		}
	}
	if len(stuck) > 0 {
		return stuck[0]
	}
	return "unstable"
}

// cycleInvariants: oracles that need the harness' knowledge of the world.
func (w *World) cycleInvariants(c *cycleRec, tr *cyc.CycleTrace, phase string) {
	e := w.E
	sc := w.SC
	for ri, rep := range tr.Replicas {
		if rep.ListErr {
			continue
		}
		allSync := len(rep.Shards) > 0
		for _, s := range rep.Shards {
			if !s.InSync {
				allSync = false
			}
		}
		reported := func(h uint64) bool {
			for _, s := range rep.Shards {
				if s.Rep != nil {
					if _, ok := s.Rep[h]; ok {
						return true
					}
				}
			}
			return false
		}
		placed := func(h uint64) bool {
			for _, s := range rep.Shards {
				if s.Post != nil {
					if _, ok := s.Post[h]; ok {
						return true
					}
				}
			}
			return false
		}
		count := int32(len(rep.Shards))
		// remember oversized targets the coordinator itself placed (C03 end state, C04 b1)
		for _, t := range sc.Targets {
			h := w.hashOf[t.Addr]
			// ... judged by the estimate the coordinator was given (it may predate growth)
			if ex := c.Explore[h]; h != 0 && ex != nil && !reported(h) && placed(h) &&
				((sc.Opt.MaxHeadSeries != 0 && ex.Series > sc.Opt.MaxHeadSeries) || ex.Total > sc.Opt.MaxProcessSeries) {
				w.assignedOversized[fmt.Sprintf("%d/%s", ri, t.Addr)] = true
			}
		}
		// C03 (e): all shards in sync, an eligible unscraped target not placed => more shards requested
		if e.Property == "C03" && allSync && count < sc.Opt.MaxShard {
			for _, t := range sc.Targets {
				h := w.hashOf[t.Addr]
				if h == 0 || sc.Class(t) != "eligible" {
					continue
				}
				okAt, probed := w.probeOK[t.Addr]
				sent, known := w.sdSent[t.Addr]
				if !probed || !known || !okAt.Before(c.Start) || sent.Add(sc.Period).After(c.Start) {
					continue
				}
				if _, act := c.Active[h]; !act {
					continue
				}
				// the estimate the explorer holds must itself be placeable (it may predate growth)
				if ex := c.Explore[h]; ex == nil || ex.Health != "up" || ex.Series != int64(t.Kept) || ex.Total != int64(t.Total) {
					continue
				}
				if reported(h) || placed(h) {
					continue
				}
				last := int32(-1)
				if len(rep.Scale) > 0 {
					last = rep.Scale[len(rep.Scale)-1].Value
				}
				if last <= count {
					e.Violate("no-scale-up", "", "cycle %d: all %d shards in sync, eligible target %s (%d,%d) is unscraped and was not placed, but the cycle requested %d shards", c.N, count, t.Addr, t.Kept, t.Total, last)
				}
			}
		}
		// C14, closed loop: the load a shard reports is the sum over the targets it reports
		if e.Property == "C14" {
			for _, s := range rep.Shards {
				if !s.StatusOK || len(s.RT) == 0 {
					continue
				}
				var ss, st int64
				for _, x := range s.Rep {
					ss += x.Series
					st += x.TotalSeries
				}
				rt := s.RT[0]
				e.Key("world-runtime", fmt.Sprintf("targets=%d", min(len(s.Rep), 4)), fmt.Sprintf("head-above-sum=%v", rt.HeadSeries > ss))
				if rt.ProcessSeries != st {
					e.Violate("world-runtime", "field=process", "cycle %d: %s reports process series %d but the totals of the targets it reports add up to %d", c.N, s.ID, rt.ProcessSeries, st)
				}
				if rt.HeadSeries < ss {
					e.Violate("world-runtime", "field=head", "cycle %d: %s reports head series %d, below the sum %d of its targets' series", c.N, s.ID, rt.HeadSeries, ss)
				}
				if p := w.podByName(s.ID); p != nil && p.Prom != nil {
					if h, err := p.Prom.Head(); err == nil && rt.HeadSeries < h {
						e.Violate("world-runtime", "field=head-prometheus", "cycle %d: %s reports head series %d, below its Prometheus' own head count %d", c.N, s.ID, rt.HeadSeries, h)
					}
				}
			}
		}
		// C16, closed loop: a shard is treated as in sync exactly when it runs the coordinator's
		// configuration (same semantic revision; external labels and comments do not count)
		if e.Property == "C16" {
			for _, s := range rep.Shards {
				p := w.podByName(s.ID)
				if p == nil || !p.Running || !s.Ready || !s.StatusOK || len(s.RT) == 0 || !s.RTLastOK {
					continue
				}
				podSem := SemOf(p.SC.ConfigText())
				coordSem := SemOf(c.Raw)
				mode := "push"
				if p.FileMode {
					mode = "file"
				}
				e.Key("world-insync", mode, fmt.Sprintf("same=%v", podSem == coordSem), fmt.Sprintf("insync=%v", s.InSync))
				if s.InSync && podSem != coordSem {
					e.Violate("world-in-sync-with-other-config", "mode="+mode, "cycle %d: shard %s runs configuration revision %d, the coordinator %d, but it is treated as in sync", c.N, s.ID, podSem, coordSem)
				}
				if !s.InSync && podSem == coordSem {
					e.Violate("world-out-of-sync-with-same-config", "mode="+mode, "cycle %d: shard %s runs the coordinator's configuration (revision %d; only external labels / comments differ) but is treated as out of sync (reported hash %q, coordinator %q)", c.N, s.ID, podSem, s.RT[len(s.RT)-1].ConfigHash, c.Hash)
				}
			}
		}
		// C05, closed loop: a source keeps the copy it was told to treat as in_transfer until the coordinator
		// takes it away (whatever happens to the sidecar in between: the update was accepted, hence stored)
		if e.Property == "C05" {
			for _, s := range rep.Shards {
				p := w.podByName(s.ID)
				if p == nil || !p.Running || !s.StatusOK || s.Rep == nil {
					continue
				}
				for _, k := range sortedKeys(w.lastTold) {
					if !strings.HasPrefix(k, s.ID+"/") || w.lastTold[k] != "in_transfer" || w.toldPod[k] != p {
						continue
					}
					addr := strings.TrimPrefix(k, s.ID+"/")
					if _, has := s.Rep[w.hashOf[addr]]; !has {
						e.Violate("world-source-lost-copy-during-move", "", "cycle %d: %s accepted an update that marks %s in_transfer and nothing has taken it away since, but its status no longer lists it", c.N, s.ID, addr)
					}
				}
			}
		}
		// remember how many scrapes a pod had made when one of its copies was marked in_transfer
		for _, s := range rep.Shards {
			if s.Post == nil || !s.PostDelivered {
				continue
			}
			for h, t := range s.Post {
				k := s.ID + "/" + w.addrOf[h]
				// the move begins when the shard is told in_transfer for a copy that it reports as normal,
				// or that the last update it received told it to treat as normal
				st, had := s.Rep[h]
				last, told := w.lastTold[k]
				if t.TargetState == "in_transfer" && ((had && st.TargetState == "") || (told && last == "")) {
					w.markAt[k] = w.scrapeFrom[w.addrOf[h]][s.ID]
				}
				if t.TargetState == "" {
					delete(w.markAt, k)
				}
				if s.PostStatus == 200 {
					w.lastTold[k] = string(t.TargetState)
					w.toldPod[k] = w.podByName(s.ID)
				} else {
					delete(w.lastTold, k) // a refused update: what the sidecar made of it is not this oracle's business
				}
			}
			for k := range w.lastTold {
				if strings.HasPrefix(k, s.ID+"/") {
					gone := true
					for h := range s.Post {
						if k == s.ID+"/"+w.addrOf[h] {
							gone = false
						}
					}
					if gone {
						delete(w.lastTold, k)
					}
				}
			}
		}
		// C07, closed loop: a removed shard really was empty for longer than max-idle-time
		if e.Property == "C07" && count <= sc.Opt.MaxShard {
			// judged on the cluster's own pods (by ordinal), not on the coordinator's view of them
			var sts *Replica
			for _, s := range rep.Shards {
				if p := w.podByName(s.ID); p != nil {
					sts = w.CL.Reps[p.Rep]
					break
				}
			}
			for _, x := range rep.Scale {
				if sts == nil {
					break
				}
				var ords []int
				for o := range sts.Pods {
					ords = append(ords, o)
				}
				sort.Ints(ords)
				for _, i := range ords {
					p := sts.Pods[i]
					if i < int(x.Value) || !p.Running || !p.Created.Before(c.Start) {
						continue // (a pod created after the cycle listed the pods is not part of "the current count")
					}
					if p.EmptySince == nil {
						e.Violate("world-removes-shard-in-use", "", "cycle %d: %d shards requested although %s still scrapes targets (by the sidecar's own status)", c.N, x.Value, p.Name)
					} else if x.Now.Sub(*p.EmptySince) <= sc.Opt.MaxIdleTime || sc.Opt.MaxIdleTime == 0 {
						e.Violate("world-removes-shard-not-idle-long-enough", "", "cycle %d: %d shards requested, removing %s which has been without targets for only %s (max-idle-time %s)", c.N, x.Value, p.Name, x.Now.Sub(*p.EmptySince), sc.Opt.MaxIdleTime)
					}
				}
			}
		}
		// C05, closed loop: the scrape count a source reports for a copy in transfer never exceeds
		// the scrapes its proxy has really completed since the move began
		if e.Property == "C05" {
			for _, s := range rep.Shards {
				for h, st := range s.Rep {
					addr := w.addrOf[h]
					mark, known := w.markAt[s.ID+"/"+addr]
					if st.TargetState != "in_transfer" || !known {
						continue
					}
					if truth := w.scrapeFrom[addr][s.ID] - mark; int(st.ScrapeTimes) > truth {
						e.Violate("world-source-count-includes-earlier-scrapes", "", "cycle %d: %s reports %d scrapes of %s since it was marked in_transfer, but its proxy has completed only %d since then", c.N, s.ID, st.ScrapeTimes, addr, truth)
					}
				}
			}
		}
		// C05, closed loop: when a source copy is dropped, the source has made three scrapes since
		// the move began and another holder has made three
		if e.Property == "C05" {
			for _, s := range rep.Shards {
				if !s.InSync || s.Post == nil || !s.PostDelivered {
					continue
				}
				for h, st := range s.Rep {
					if st.TargetState != "in_transfer" {
						continue
					}
					if _, still := s.Post[h]; still {
						continue
					}
					if _, act := c.Active[h]; !act {
						continue
					}
					addr := w.addrOf[h]
					since := w.scrapeFrom[addr][s.ID] - w.markAt[s.ID+"/"+addr]
					if since < 3 {
						e.Violate("world-handover-source", "", "cycle %d: in_transfer copy of %s dropped from %s, whose proxy has completed only %d scrapes of it since the move began", c.N, addr, s.ID, since)
					}
				}
			}
		}
		if e.Property == "C05" {
			for _, s := range rep.Shards {
				if !s.InSync || s.Post == nil || !s.PostDelivered {
					continue
				}
				for h, st := range s.Rep {
					if st.TargetState != "in_transfer" {
						continue
					}
					if _, still := s.Post[h]; still {
						continue
					}
					if _, act := c.Active[h]; !act {
						continue
					}
					addr := w.addrOf[h]
					best := 0
					for pod, n := range w.scrapeFrom[addr] {
						if pod != s.ID && n > best {
							best = n
						}
					}
					if best < 3 {
						e.Violate("world-handover", "", "cycle %d: in_transfer copy of %s dropped from %s but no other shard's proxy has scraped it three times (best: %d successful scrapes seen at the target)", c.N, addr, s.ID, best)
					}
				}
			}
		}
	}
}
