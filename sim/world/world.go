package world

import (
	"context"
	"fmt"
	"math/rand"
	"net/http"
	"os"
	"path/filepath"
	"runtime/debug"
	"sort"
	"strings"
	"testing/synctest"
	"time"

	"github.com/prometheus/client_golang/prometheus"
	"github.com/prometheus/common/model"
	"github.com/prometheus/prometheus/discovery/targetgroup"
	pscrape "github.com/prometheus/prometheus/scrape"

	"kvassverif/core"
	"kvassverif/cyc"
	"kvassverif/cycle"
	"kvassverif/disco"
	"kvassverif/sched"
	"kvassverif/sidecarsim"
	"kvassverif/simnet"

	"tkestack.io/kvass/pkg/coordinator"
	"tkestack.io/kvass/pkg/discovery"
	"tkestack.io/kvass/pkg/explore"
	"tkestack.io/kvass/pkg/prom"
	"tkestack.io/kvass/pkg/scrape"
	"tkestack.io/kvass/pkg/shard"
	kshard "tkestack.io/kvass/pkg/shard/kubernetes"
	"tkestack.io/kvass/pkg/target"
	"tkestack.io/kvass/pkg/verifhook"
)

// ---- recording wrappers around the real shard managers ------------------------------

type shardRec struct {
	ID    string
	Host  string
	Ready bool
}

type repRec struct {
	Name    string
	ListErr bool
	Shards  []shardRec
	Scale   []cyc.ScaleRec
}

type cycleRec struct {
	N        int
	StartSeq int
	EndSeq   int
	Start    time.Time
	Reps     []*repRec
	Active   map[uint64]string
	Explore  map[uint64]*cyc.ExpRes
	Hash     string
	Raw      string
}

type recMgr struct {
	w    *World
	m    shard.Manager
	rec  *repRec
	name string
}

func (r *recMgr) Shards() ([]*shard.Shard, error) {
	verifhook.SetSalt(r.w.nextSalt)
	rand.Seed(r.w.nextRand)
	sh, err := r.m.Shards()
	r.rec.Name = strings.TrimPrefix(r.w.CL.LastPodSelector, "sts=")
	if err != nil {
		r.rec.ListErr = true
		return nil, err
	}
	for _, s := range sh {
		host := ""
		if p := r.w.podByName(s.ID); p != nil {
			host = p.Host
		}
		r.rec.Shards = append(r.rec.Shards, shardRec{ID: s.ID, Host: host, Ready: s.Ready})
	}
	return sh, nil
}

func (r *recMgr) ChangeScale(n int32) error {
	err := r.m.ChangeScale(n)
	r.rec.Scale = append(r.rec.Scale, cyc.ScaleRec{Seq: r.w.Net.Seq(), Value: n, Err: err != nil, Now: time.Now()})
	return err
}

type recReps struct {
	w  *World
	rm *kshard.ReplicasManager
}

func (r *recReps) Replicas() ([]shard.Manager, error) {
	w := r.w
	w.closeCycle()
	c := &cycleRec{N: len(w.Cycles) + 1, StartSeq: w.Net.Seq(), Start: time.Now(), Active: map[uint64]string{}, Explore: map[uint64]*cyc.ExpRes{}}
	ci := w.Cfg.ConfigInfo()
	c.Hash, c.Raw = ci.ConfigHash, string(ci.RawContent)
	w.cur = c
	ms, err := r.rm.Replicas()
	if err != nil {
		return nil, err
	}
	var out []shard.Manager
	for i, m := range ms {
		// identify the StatefulSet by listing order (the stub lists by name)
		rec := &repRec{}
		c.Reps = append(c.Reps, rec)
		out = append(out, &recMgr{w: w, m: m, rec: rec, name: fmt.Sprint(i)})
	}
	return out, nil
}

// ---- the world -------------------------------------------------------------------------

type World struct {
	E   *core.Env
	TP  *core.Tape
	SC  *WScenario
	Net *simnet.Net
	TG  *sidecarsim.Targets
	PN  *disco.ProbeNet
	CL  *Cluster
	Cfg *prom.ConfigManager
	TD  *discovery.TargetsDiscovery
	EX  *explore.Explore
	CO  *coordinator.Coordinator
	SD  chan map[string][]*targetgroup.Group

	Cycles   []*cycleRec
	cur      *cycleRec
	nextSalt uint64
	nextRand int64
	start    time.Time
	ctx      context.Context
	stop     context.CancelFunc
	coDone   chan struct{}
	coPanic  string
	hashOf   map[string]uint64 // addr -> target hash (learnt from translations)
	addrOf   map[uint64]string
	sdSent   map[string]time.Time // addr -> when its discovery update was forwarded to the explorer
	probeOK  map[string]time.Time // addr -> first successful probe
	cfgSem   int                  // semantic revision of the coordinator's configuration
	cfgCos   int                  // cosmetic revision
	hist     []string
	// fault plan
	loseNextPost      map[string]string    // host -> "before" | "after"
	failGetUntil      map[string]time.Time // host -> GETs fail until
	lastFault         time.Time
	faultsLeft        int
	faultsDone        []string
	scrapeFrom        map[string]map[string]int // addr -> pod name -> scrape attempts completed through that pod's proxy
	assignedOversized map[string]bool
	toldPod           map[string]*Pod   // pod/addr -> the pod object (incarnation) that accepted that update
	lastTold          map[string]string // pod/addr -> state in the last update delivered to that pod
	markAt            map[string]int    // pod/addr -> attempts of that pod when the copy was marked in_transfer
	held              []*heldScrape
	dynEvents         []dynEvent // events scheduled by a fault decision (applied by the main loop when due)
}

type dynEvent struct {
	At time.Time
	Ev WEvent
}

func (w *World) logf(f string, a ...interface{}) {
	s := fmt.Sprintf("t=%s ", time.Since(w.start).Round(time.Millisecond)) + fmt.Sprintf(f, a...)
	w.hist = append(w.hist, s)
	w.E.Logf("%s", s)
}

func (w *World) podByName(n string) *Pod {
	for _, r := range w.CL.Reps {
		for _, p := range r.Pods {
			if p.Name == n {
				return p
			}
		}
	}
	return nil
}

func payload(t *WTarget) []byte {
	var b strings.Builder
	for i := 0; i < t.Kept; i++ {
		fmt.Fprintf(&b, "m_%d 1\n", i)
	}
	for i := t.Kept; i < t.Total; i++ {
		fmt.Fprintf(&b, "drop_%d 1\n", i)
	}
	return []byte(b.String())
}

func keptOf(body []byte) int {
	n := 0
	for _, ln := range strings.Split(string(body), "\n") {
		if ln != "" && !strings.HasPrefix(ln, "drop_") {
			n++
		}
	}
	return n
}

func (w *World) applyTargetSpec(t *WTarget) {
	spec := &sidecarsim.TargetSpec{Payload: payload(t)}
	if !t.Healthy {
		spec.Fail = "connect"
	}
	w.TG.Set(t.Addr, spec)
}

// New builds the world inside the current bubble.
func New(tp *core.Tape, e *core.Env, sc *WScenario) (*World, error) {
	w := &World{E: e, TP: tp, SC: sc, start: time.Now(), hashOf: map[string]uint64{}, addrOf: map[uint64]string{},
		sdSent: map[string]time.Time{}, probeOK: map[string]time.Time{}, loseNextPost: map[string]string{}, failGetUntil: map[string]time.Time{},
		scrapeFrom: map[string]map[string]int{}, assignedOversized: map[string]bool{}, markAt: map[string]int{}, lastTold: map[string]string{}, toldPod: map[string]*Pod{}}
	lg := cycle.Quiet()
	w.Net = simnet.New()
	w.TG = sidecarsim.NewTargets()
	w.PN = &disco.ProbeNet{}
	for _, t := range sc.Targets {
		w.applyTargetSpec(t)
	}
	base := filepath.Join(e.Scratch, fmt.Sprintf("world-%d", e.RunIndex))
	_ = os.RemoveAll(base)
	if err := os.MkdirAll(base, 0o755); err != nil {
		return nil, err
	}
	w.CL = NewCluster(base, w.Net, w.TG, sc.Replicas, sc.InitShards, sc.DeletePVC)
	w.CL.Instant = sc.InstantHead
	w.CL.ConfigText = func() string { return sc.ConfigText(w.cfgSem, w.cfgCos) }
	w.CL.FileModeOf = func(rep, ord int) bool { return sc.FileMode && (rep+ord)%2 == 0 }
	w.CL.OffsetFor = func(key string) time.Duration {
		h := uint64(1469598103934665603)
		for i := 0; i < len(key); i++ {
			h = (h ^ uint64(key[i])) * 1099511628211
		}
		return time.Duration(h%5000) * time.Millisecond
	}
	lag := 0
	w.CL.StartLag = func() time.Duration { lag++; return time.Duration((lag*7)%(sc.StartLagMax+1)) * time.Second }

	// coordinator side, wired as cmd/kvass/coordinator.go
	sm := scrape.New(false, lg)
	w.TD = discovery.New(lg)
	w.EX = explore.New(sm, prometheus.NewRegistry(), lg)
	w.Cfg = prom.NewConfigManager()
	w.Cfg.AddReloadCallbacks(
		func(cfg *prom.ConfigInfo) error { return nil },
		sm.ApplyConfig,
		func(cfg *prom.ConfigInfo) error {
			for _, j := range cfg.Config.ScrapeConfigs {
				if ji := sm.GetJob(j.JobName); ji != nil {
					ji.Cli.Transport = w.PN
				}
			}
			return nil
		},
		w.EX.ApplyConfig,
		w.TD.ApplyConfig,
		func(cfg *prom.ConfigInfo) error { return nil },
	)
	if err := w.Cfg.ReloadFromRaw([]byte(sc.ConfigText(0, 0))); err != nil {
		return nil, fmt.Errorf("coordinator rejects its configuration: %w", err)
	}
	w.SD = make(chan map[string][]*targetgroup.Group, 16)
	w.ctx, w.stop = context.WithCancel(context.Background())
	go func() { _ = w.TD.Run(w.ctx, w.SD) }()
	go func() { _ = w.EX.Run(w.ctx, 3) }()
	http.DefaultTransport = &sidecarsim.Router{Next: w.Net}

	rm := kshard.NewReplicasManager(w.CL.Cli, ns, "app.kubernetes.io/name=prometheus", 8080, sc.DeletePVC, lg)
	opt := &coordinator.Option{MaxHeadSeries: sc.Opt.MaxHeadSeries, MaxProcessSeries: sc.Opt.MaxProcessSeries, MaxShard: sc.Opt.MaxShard, MinShard: sc.Opt.MinShard,
		MaxIdleTime: sc.Opt.MaxIdleTime, Period: sc.Period, DisableAlleviate: sc.Opt.DisableAlleviate}
	w.CO = coordinator.NewCoordinator(opt, &recReps{w: w, rm: rm}, w.Cfg.ConfigInfo,
		func(h uint64) *target.ScrapeStatus {
			st := w.EX.Get(h)
			if w.cur != nil {
				if st == nil {
					w.cur.Explore[h] = nil
				} else {
					hl := "unknown"
					switch st.Health {
					case pscrape.HealthGood:
						hl = "up"
					case pscrape.HealthBad:
						hl = "down"
					}
					w.cur.Explore[h] = &cyc.ExpRes{Health: hl, Series: st.Series, Total: st.TotalSeries}
				}
			}
			return st
		},
		func() map[uint64]*discovery.SDTargets {
			m := w.TD.ActiveTargetsByHash()
			if w.cur != nil {
				for h, t := range m {
					w.cur.Active[h] = t.Job
				}
			}
			return m
		},
		prometheus.NewRegistry(), lg)
	return w, nil
}

func (w *World) closeCycle() {
	if w.cur != nil {
		w.cur.EndSeq = w.Net.Seq()
		w.Cycles = append(w.Cycles, w.cur)
		w.cur = nil
	}
}

// Trace converts a recorded cycle into the CycleTrace the cycle oracles take.
func (w *World) Trace(c *cycleRec) *cyc.CycleTrace {
	tr := &cyc.CycleTrace{Opt: w.SC.Opt, CoordHash: c.Hash, Raw: c.Raw, Active: c.Active, Explore: c.Explore}
	byHost := map[string][]*simnet.Call{}
	for _, call := range w.Net.Log {
		if call.Seq > c.StartSeq && call.Seq <= c.EndSeq {
			byHost[call.Host] = append(byHost[call.Host], call)
		}
	}
	for i, r := range c.Reps {
		rt := &cyc.ReplicaTrace{ID: fmt.Sprintf("r%d", i), ListErr: r.ListErr, Scale: r.Scale}
		for _, s := range r.Shards {
			st := cyc.BuildShard(s.ID, s.Ready, byHost[s.Host], c.Hash)
			if s.Host == "" {
				st = cyc.BuildShard(s.ID, s.Ready, nil, c.Hash)
			}
			for _, call := range st.Calls {
				if call.Seq > rt.LastSeq {
					rt.LastSeq = call.Seq
				}
			}
			rt.Shards = append(rt.Shards, st)
		}
		tr.Replicas = append(tr.Replicas, rt)
	}
	return tr
}

// SendSD emits the current target groups as the Prometheus SD manager would (full
// maps) and forwards the translation to the explorer.
func (w *World) SendSD() {
	u := map[string][]*targetgroup.Group{}
	for _, j := range w.SC.Jobs {
		g := &targetgroup.Group{Source: j + "/0"}
		for _, t := range w.SC.Targets {
			if t.InSD && t.Job == j {
				g.Targets = append(g.Targets, model.LabelSet{model.AddressLabel: model.LabelValue(t.Addr)})
			}
		}
		u[j] = []*targetgroup.Group{g}
	}
	w.SD <- u
	synctest.Wait()
	for {
		select {
		case tr := <-w.TD.ActiveTargetsChan():
			for _, ts := range tr {
				for _, t := range ts {
					a := t.ShardTarget.Labels.Get(model.AddressLabel)
					w.hashOf[a] = t.ShardTarget.Hash
					w.addrOf[t.ShardTarget.Hash] = a
					if _, ok := w.sdSent[a]; !ok {
						w.sdSent[a] = time.Now()
					}
				}
			}
			w.EX.UpdateTargets(tr)
			continue
		default:
		}
		break
	}
}

// ReleaseProbes answers every parked explorer probe from the target's current behaviour.
func (w *World) ReleaseProbes() {
	for i := 0; i < 50; i++ {
		synctest.Wait()
		pend := w.PN.Pending()
		if len(pend) == 0 {
			return
		}
		for _, p := range pend {
			var t *WTarget
			for _, x := range w.SC.Targets {
				if x.Addr == p.Host {
					t = x
				}
			}
			sched.Sleep(time.Millisecond) // distinct instants: retry timers must not coincide
			if t == nil || !t.Healthy {
				w.PN.Release(p, "connect", nil)
				w.E.Fault("probe_fail")
				synctest.Wait()
			} else {
				w.PN.Release(p, "", payload(t))
				if _, ok := w.probeOK[t.Addr]; !ok {
					w.probeOK[t.Addr] = time.Now()
				}
			}
		}
	}
}

type heldScrape struct {
	ch     chan struct{}
	done   chan struct{}
	pod    string
	host   string
	since  time.Time
	cycles int
}

func (w *World) countScrape(host, pod string) {
	m := w.scrapeFrom[host]
	if m == nil {
		m = map[string]int{}
		w.scrapeFrom[host] = m
	}
	m[pod]++
}

// RunScrapes performs every scrape that is due on every running pod. A drawn share of
// them stays in flight (parked at the target) until ReleaseHeld lets them finish, so
// that coordination cycles and target updates overlap scrapes.
func (w *World) RunScrapes(now time.Time) {
	for _, p := range w.CL.AllPods() {
		if !p.Running || p.Prom == nil || now.Before(p.StalledUntil) {
			continue
		}
		for _, t := range p.Prom.Due(now) {
			if w.SC.HeldScrapes > 0 && len(w.held) < 4 && w.TP.Bool("hold_scrape", w.SC.HeldScrapes, 8) {
				h := &heldScrape{ch: w.TG.HoldNext(t.Host), done: make(chan struct{}), pod: p.Name, host: t.Host, since: now, cycles: len(w.Cycles)}
				pp, tt := p, t
				tt.NextAt = now.Add(tt.Interval)
				go func() {
					defer close(h.done)
					pp.Prom.ScrapeOne(pp.SC, tt, now, keptOf)
				}()
				synctest.Wait()
				w.held = append(w.held, h)
				w.E.Probe("scrape_held_in_flight")
				continue
			}
			p.Prom.ScrapeOne(p.SC, t, now, keptOf)
			w.countScrape(t.Host, p.Name)
		}
	}
}

// ReleaseHeld finishes in-flight scrapes that have seen a cycle pass or are 2 s old.
func (w *World) ReleaseHeld(now time.Time, all bool) {
	var rest []*heldScrape
	for _, h := range w.held {
		if all || len(w.Cycles) > h.cycles || now.Sub(h.since) >= 2*time.Second {
			if len(w.Cycles) > h.cycles {
				w.E.Probe("scrape_overlapped_a_cycle")
			}
			close(h.ch)
			<-h.done
			w.countScrape(h.host, h.pod)
		} else {
			rest = append(rest, h)
		}
	}
	w.held = rest
}

// StartCoordinator runs the real Coordinator.Run until the context ends.
func (w *World) StartCoordinator() {
	w.coDone = make(chan struct{})
	go func() {
		defer close(w.coDone)
		defer func() {
			if r := recover(); r != nil {
				w.coPanic = fmt.Sprintf("%v\n%s", r, debug.Stack())
			}
		}()
		_ = w.CO.Run(w.ctx)
	}()
}

func (w *World) Close() {
	w.ReleaseHeld(time.Now(), true)
	w.stop()
	w.Net.AbortAll()
	for i := 0; i < 4; i++ {
		for _, p := range w.PN.Pending() {
			w.PN.Release(p, "connect", nil)
		}
		w.Net.AbortAll()
		sched.Sleep(w.SC.Period + 6*time.Second)
		synctest.Wait()
	}
	verifhook.SetSalt(0)
	_ = os.RemoveAll(w.CL.BaseDir)
}

// Holders returns, for every target address, the pods whose sidecar currently has it, with state.
func (w *World) Holders(rep int) map[string]map[string]string {
	out := map[string]map[string]string{}
	for _, p := range w.CL.AllPods() {
		if p.Rep != rep || !p.Running {
			continue
		}
		st, err := p.SC.GetStatus()
		if err != nil {
			continue
		}
		for h, s := range st {
			a := w.addrOf[h]
			if a == "" {
				a = fmt.Sprintf("hash-%d", h)
			}
			if out[a] == nil {
				out[a] = map[string]string{}
			}
			out[a][p.Name] = s.TargetState
		}
	}
	return out
}

func sortedKeys[V any](m map[string]V) []string {
	out := make([]string, 0, len(m))
	for k := range m {
		out = append(out, k)
	}
	sort.Strings(out)
	return out
}
