package world

import (
	"context"
	"fmt"
	"os"
	"path/filepath"
	"sort"
	"strings"
	"time"

	appsv1 "k8s.io/api/apps/v1"
	corev1 "k8s.io/api/core/v1"
	metav1 "k8s.io/apimachinery/pkg/apis/meta/v1"
	"k8s.io/apimachinery/pkg/runtime"
	"k8s.io/client-go/kubernetes/fake"
	k8stesting "k8s.io/client-go/testing"

	"kvassverif/sidecarsim"
	"kvassverif/simnet"
)

const ns = "monitoring"

type Pod struct {
	Rep     int
	Ordinal int
	Name    string
	IP      string
	Host    string // ip:8080
	Dir     string
	SC      *sidecarsim.Sidecar
	Prom    *PromStub
	Created time.Time
	ReadyAt time.Time
	Running bool
	// faults
	NotReadyUntil    time.Time
	UnreachableUntil time.Time
	// TerminatingUntil: the pod carries a deletion timestamp (delete / eviction with a long grace period)
	// while its containers still run and serve; a statefulset pod is recreated under the same name
	TerminatingUntil time.Time
	// PromAPIDownUntil: the pod's Prometheus does not answer its API (the sidecar's runtimeinfo then fails)
	PromAPIDownUntil time.Time
	FileMode         bool
	FileText         string // configuration text currently rolled out to this pod's file
	ReloadFailUntil  time.Time
	StalledUntil     time.Time  // its Prometheus does not get round to scraping (overloaded / paused)
	EmptySince       *time.Time // harness' own knowledge of since when the pod scrapes nothing
}

type Replica struct {
	Idx  int
	Name string
	Pods map[int]*Pod
}

// Cluster is the API-server stub plus the StatefulSet-controller stub.
type Cluster struct {
	Cli             *fake.Clientset
	Reps            []*Replica
	Net             *simnet.Net
	Targets         *sidecarsim.Targets
	BaseDir         string
	StartLag        func() time.Duration // pod start delay (drawn by the sim loop, never here)
	PodOrder        []int                // permutation applied to pod lists (drawn per cycle)
	DeletePVC       bool
	Instant         bool
	FileModeOf      func(rep, ord int) bool
	ConfigText      func() string
	OffsetFor       func(key string) time.Duration
	Events          []string
	FailVerb        string // injected API error: "", "update-sts", "get-sts", "list-pods"
	LastPodSelector string
}

func i32(v int32) *int32 { return &v }

func NewCluster(base string, net *simnet.Net, targets *sidecarsim.Targets, nRep int, initial []int32, deletePVC bool) *Cluster {
	c := &Cluster{Net: net, Targets: targets, BaseDir: base, DeletePVC: deletePVC}
	var objs []runtime.Object
	for r := 0; r < nRep; r++ {
		name := fmt.Sprintf("prom-r%d", r)
		c.Reps = append(c.Reps, &Replica{Idx: r, Name: name, Pods: map[int]*Pod{}})
		objs = append(objs, &appsv1.StatefulSet{
			ObjectMeta: metav1.ObjectMeta{Name: name, Namespace: ns, Labels: map[string]string{"app.kubernetes.io/name": "prometheus"}},
			Spec: appsv1.StatefulSetSpec{Replicas: i32(initial[r]), Selector: &metav1.LabelSelector{MatchLabels: map[string]string{"sts": name}},
				VolumeClaimTemplates: []corev1.PersistentVolumeClaim{{ObjectMeta: metav1.ObjectMeta{Name: "data"}}}},
		})
	}
	c.Cli = fake.NewSimpleClientset(objs...)
	c.Cli.PrependReactor("*", "*", func(a k8stesting.Action) (bool, runtime.Object, error) {
		key := a.GetVerb() + "-" + a.GetResource().Resource
		switch {
		case c.FailVerb == "update-sts" && key == "update-statefulsets",
			c.FailVerb == "get-sts" && key == "get-statefulsets",
			c.FailVerb == "list-pods" && key == "list-pods":
			return true, nil, fmt.Errorf("injected API error on %s", key)
		}
		if key == "list-statefulsets" {
			// the object tracker lists from a Go map: answer in name order
			l := &appsv1.StatefulSetList{}
			sel := a.(k8stesting.ListAction).GetListRestrictions().Labels
			for _, r := range c.Reps {
				o, err := c.Cli.Tracker().Get(appsv1.SchemeGroupVersion.WithResource("statefulsets"), ns, r.Name)
				if err != nil {
					continue
				}
				s := o.(*appsv1.StatefulSet)
				if sel.Matches(lbl(s.Labels)) {
					l.Items = append(l.Items, *s.DeepCopy())
				}
			}
			return true, l, nil
		}
		if key == "list-pods" {
			sel := a.(k8stesting.ListAction).GetListRestrictions().Labels
			c.LastPodSelector = sel.String()
			var items []corev1.Pod
			for _, r := range c.Reps {
				if !sel.Matches(lbl{"sts": r.Name}) {
					continue
				}
				var ords []int
				for o := range r.Pods {
					ords = append(ords, o)
				}
				sort.Ints(ords)
				for _, o := range ords {
					p := r.Pods[o]
					ip := p.IP
					if !p.Running || time.Now().Before(p.NotReadyUntil) {
						ip = ""
					}
					om := metav1.ObjectMeta{Name: p.Name, Namespace: ns, Labels: map[string]string{"sts": r.Name}}
					if p.Running && time.Now().Before(p.TerminatingUntil) {
						dt := metav1.NewTime(p.TerminatingUntil)
						om.DeletionTimestamp = &dt
					}
					items = append(items, corev1.Pod{ObjectMeta: om, Status: corev1.PodStatus{PodIP: ip}})
				}
			}
			// the API server may answer in any order: apply the drawn permutation
			if len(c.PodOrder) > 0 && len(items) > 1 {
				out := make([]corev1.Pod, 0, len(items))
				used := map[int]bool{}
				for _, k := range c.PodOrder {
					if k < len(items) && !used[k] {
						out = append(out, items[k])
						used[k] = true
					}
				}
				for k := range items {
					if !used[k] {
						out = append(out, items[k])
					}
				}
				items = out
			}
			return true, &corev1.PodList{Items: items}, nil
		}
		return false, nil, nil
	})
	return c
}

type lbl map[string]string

func (l lbl) Has(k string) bool   { _, ok := l[k]; return ok }
func (l lbl) Get(k string) string { return l[k] }

func (c *Cluster) logf(f string, a ...interface{}) { c.Events = append(c.Events, fmt.Sprintf(f, a...)) }

func (c *Cluster) Desired(r *Replica) int32 {
	old := c.FailVerb
	c.FailVerb = ""
	defer func() { c.FailVerb = old }()
	s, err := c.Cli.AppsV1().StatefulSets(ns).Get(context.TODO(), r.Name, metav1.GetOptions{})
	if err != nil || s.Spec.Replicas == nil {
		return 0
	}
	return *s.Spec.Replicas
}

func (c *Cluster) SetDesired(r *Replica, n int32) {
	old := c.FailVerb
	c.FailVerb = ""
	defer func() { c.FailVerb = old }()
	s, err := c.Cli.AppsV1().StatefulSets(ns).Get(context.TODO(), r.Name, metav1.GetOptions{})
	if err != nil {
		return
	}
	s.Spec.Replicas = i32(n)
	_, _ = c.Cli.AppsV1().StatefulSets(ns).Update(context.TODO(), s, metav1.UpdateOptions{})
}

func (c *Cluster) pvcExists(name string) bool {
	_, err := c.Cli.CoreV1().PersistentVolumeClaims(ns).Get(context.TODO(), name, metav1.GetOptions{})
	return err == nil
}

// startPod starts the sidecar "process" of a pod over its directory.
func (c *Cluster) startPod(p *Pod, now time.Time) error {
	opt := sidecarsim.Options{Dir: p.Dir, Targets: c.Targets, PromHost: p.IP + ":9090"}
	if p.FileMode {
		opt.ConfigFile = filepath.Join(p.Dir, "prometheus.env.yaml")
		if p.FileText == "" {
			p.FileText = c.ConfigText()
		}
		if err := os.WriteFile(opt.ConfigFile, []byte(p.FileText), 0o644); err != nil {
			return err
		}
	}
	sc := sidecarsim.Start(opt)
	if sc.LoadErr != nil {
		return sc.LoadErr
	}
	if p.Prom == nil {
		p.Prom = NewPromStub(c.Instant, c.OffsetFor)
	}
	prom := p.Prom
	sc.HeadSeries = func() (int64, error) {
		if time.Now().Before(p.PromAPIDownUntil) {
			return 0, fmt.Errorf("prometheus api down (injected)")
		}
		return prom.Head()
	}
	sc.OnReload = func() {
		if time.Now().Before(p.ReloadFailUntil) {
			sc.ReloadErr = fmt.Errorf("prometheus reload failed (injected)")
			return
		}
		sc.ReloadErr = nil
		prom.Reload(sc.OutFile, time.Now())
	}
	p.SC = sc
	// Prometheus (re)reads the file the sidecar wrote while starting
	prom.Reload(sc.OutFile, now)
	p.Running = true
	c.Net.Handle(p.Host, sc.Service)
	// since when it is empty: at a start the store's own idle-since is taken over
	if st, err := sc.GetStatus(); err == nil {
		if len(st) == 0 {
			if p.EmptySince == nil {
				if rt, err := sc.GetRuntime(); err == nil && rt.IdleStartAt != nil {
					t := *rt.IdleStartAt
					p.EmptySince = &t
				} else {
					t := now
					p.EmptySince = &t
				}
			}
		} else {
			p.EmptySince = nil
		}
	}
	return nil
}

// RestartSidecar: the sidecar process dies and comes back from its store; Prometheus keeps running.
func (c *Cluster) RestartSidecar(p *Pod, now time.Time) error {
	if !p.Running {
		return nil
	}
	return c.startPod(p, now)
}

// Step is the StatefulSet controller: create missing pods, start those whose
// delay has passed, delete pods above the desired count, maintain status.
func (c *Cluster) Step(now time.Time) error {
	for _, r := range c.Reps {
		want := int(c.Desired(r))
		var ords []int
		for o := range r.Pods {
			ords = append(ords, o)
		}
		sort.Sort(sort.Reverse(sort.IntSlice(ords)))
		for _, o := range ords {
			if o >= want {
				p := r.Pods[o]
				c.Net.Unhandle(p.Host)
				if p.SC != nil {
					p.SC.Stop()
				}
				delete(r.Pods, o)
				c.logf("pod %s deleted", p.Name)
			}
		}
		for o := 0; o < want; o++ {
			p := r.Pods[o]
			if p == nil {
				name := fmt.Sprintf("%s-%d", r.Name, o)
				p = &Pod{Rep: r.Idx, Ordinal: o, Name: name, IP: fmt.Sprintf("10.%d.0.%d", r.Idx, o+1), Dir: filepath.Join(c.BaseDir, name), Created: now}
				p.Host = p.IP + ":8080"
				p.ReadyAt = now.Add(c.StartLag())
				p.FileMode = c.FileModeOf(r.Idx, o)
				pvc := fmt.Sprintf("data-%s-%d", r.Name, o)
				if !c.pvcExists(pvc) {
					// a fresh volume
					_ = os.RemoveAll(p.Dir)
					_, _ = c.Cli.CoreV1().PersistentVolumeClaims(ns).Create(context.TODO(), &corev1.PersistentVolumeClaim{ObjectMeta: metav1.ObjectMeta{Name: pvc, Namespace: ns}}, metav1.CreateOptions{})
				}
				_ = os.MkdirAll(p.Dir, 0o755)
				r.Pods[o] = p
				c.logf("pod %s created, ready at +%s", name, p.ReadyAt.Sub(now))
			}
			if !p.Running && !now.Before(p.ReadyAt) {
				if err := c.startPod(p, now); err != nil {
					return fmt.Errorf("pod %s: sidecar does not start: %w", p.Name, err)
				}
				c.logf("pod %s running", p.Name)
			}
		}
		// status
		ready := 0
		for _, p := range r.Pods {
			if p.Running && !now.Before(p.NotReadyUntil) {
				ready++
			}
		}
		old := c.FailVerb
		c.FailVerb = ""
		s, err := c.Cli.AppsV1().StatefulSets(ns).Get(context.TODO(), r.Name, metav1.GetOptions{})
		if err == nil {
			n := int32(len(r.Pods))
			if s.Status.Replicas != n || s.Status.ReadyReplicas != int32(ready) || s.Status.UpdatedReplicas != n {
				s.Status.Replicas, s.Status.UpdatedReplicas, s.Status.ReadyReplicas = n, n, int32(ready)
				_, _ = c.Cli.AppsV1().StatefulSets(ns).UpdateStatus(context.TODO(), s, metav1.UpdateOptions{})
			}
		}
		c.FailVerb = old
	}
	return nil
}

// PodByHost finds a pod by its API host.
func (c *Cluster) PodByHost(h string) *Pod {
	for _, r := range c.Reps {
		for _, p := range r.Pods {
			if p.Host == h {
				return p
			}
		}
	}
	return nil
}

func (c *Cluster) AllPods() []*Pod {
	var out []*Pod
	for _, r := range c.Reps {
		var ords []int
		for o := range r.Pods {
			ords = append(ords, o)
		}
		sort.Ints(ords)
		for _, o := range ords {
			out = append(out, r.Pods[o])
		}
	}
	return out
}

var _ = strings.TrimSpace
