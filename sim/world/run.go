package world

import (
	"fmt"
	"net/http"
	"sort"
	"strings"
	"testing/synctest"
	"time"

	"kvassverif/core"
	"kvassverif/cyc"
	"kvassverif/sched"
	"kvassverif/sidecarsim"
	"kvassverif/simnet"

	"tkestack.io/kvass/pkg/shard"
	"tkestack.io/kvass/pkg/target"
)

// Result of a world run, for the per-property wrappers.
type Result struct {
	Converged   bool
	ConvergedAt int // cycles after the last fault / workload event
	Stuck       []string
}

func mkTargetFromSD(w *World, addr, job, state string, series, total int64) *target.Target {
	m := w.TD.ActiveTargetsByHash()
	h := w.hashOf[addr]
	if t := m[h]; t != nil {
		c := *t.ShardTarget
		c.TargetState = state
		c.Series, c.TotalSeries = series, total
		return &c
	}
	return nil
}

// Run executes a world scenario. which selects the per-cycle oracles to evaluate.
func Run(tp *core.Tape, e *core.Env, sc *WScenario, which cyc.Which) *Result {
	res := &Result{}
	oldT := http.DefaultTransport
	defer func() { http.DefaultTransport = oldT }()
	problem := sidecarsim.InBubble(e.T, func() { runBubble(tp, e, sc, which, res) })
	if problem != "" {
		e.Undecided("world engine: %s", problem)
	}
	return res
}

func runBubble(tp *core.Tape, e *core.Env, sc *WScenario, which cyc.Which, res *Result) {
	w, err := New(tp, e, sc)
	if err != nil {
		e.Undecided("world: %v", err)
		return
	}
	defer func() {
		w.Close()
		h := w.hist
		if len(h) > 120 {
			h = append(append([]string{}, h[:40]...), append([]string{"…"}, h[len(h)-80:]...)...)
		}
		e.SetSample(map[string]interface{}{"scenario": sc, "history": h, "cycles": len(w.Cycles), "faults": w.faultsDone})
		e.AddSim(time.Since(w.start))
	}()
	now := func() time.Time { return time.Now() }

	// t=0: pods, discovery, first probes, arbitrary initial placement
	if err := w.CL.Step(now()); err != nil {
		e.Undecided("%v", err)
		return
	}
	sched.Sleep(time.Duration(sc.StartLagMax+1) * time.Second)
	if err := w.CL.Step(now()); err != nil {
		e.Undecided("%v", err)
		return
	}
	w.SendSD()
	// targets that are not discovered yet may still sit on shards from an earlier life
	byPod := map[string]map[string][]*target.Target{}
	for _, pl := range sc.Initial {
		t := sc.Targets[pl.Target]
		p := w.CL.Reps[pl.Rep].Pods[pl.Ord]
		if p == nil || !p.Running {
			continue
		}
		var tt *target.Target
		if t.InSD {
			tt = mkTargetFromSD(w, t.Addr, t.Job, pl.State, int64(t.Kept), int64(t.Total))
		}
		if tt == nil {
			continue
		}
		if byPod[p.Name] == nil {
			byPod[p.Name] = map[string][]*target.Target{}
		}
		dup := false
		for _, o := range byPod[p.Name][t.Job] {
			if o.Hash == tt.Hash {
				dup = true
			}
		}
		if !dup {
			byPod[p.Name][t.Job] = append(byPod[p.Name][t.Job], tt)
		}
	}
	for _, p := range w.CL.AllPods() {
		if a := byPod[p.Name]; a != nil {
			if !p.FileMode {
				_ = p.SC.PushConfig(sc.ConfigText(0, 0))
			}
			if err := p.SC.PostTargets(&shard.UpdateTargetsRequest{Targets: a}); err != nil {
				e.Undecided("initial placement rejected: %v", err)
				return
			}
			var d []string
			for _, ts := range a {
				for _, t := range ts {
					d = append(d, fmt.Sprintf("%s:%s", w.addrOf[t.Hash], t.TargetState))
				}
			}
			sort.Strings(d)
			w.logf("initial placement %s [%s]", p.Name, strings.Join(d, " "))
		}
	}
	w.faultsLeft = sc.FaultBudget
	w.nextSalt = tp.Salt("map_salt")
	w.nextRand = int64(tp.Choose("rand_seed", 1<<16))
	w.StartCoordinator()

	sort.SliceStable(sc.Events, func(a, b int) bool { return sc.Events[a].At < sc.Events[b].At })
	evi := 0
	lastChange := w.start // last workload event or fault
	doneCycles := 0
	phase := "work"
	quietStart := 0
	stableFrom := -1
	var stableSig string
	maxCycles := sc.WorkCycles + sc.QuietCycles + sc.StableCycles + 40
	steps := 0

	for {
		steps++
		if steps > 400000 {
			e.Undecided("world: step cap")
			return
		}
		synctest.Wait()
		if w.coPanic != "" {
			if fr := core.TopKvassFrame(w.coPanic); fr != "" && e.Property == "C01" {
				e.Violate("crash", "frame="+fr, "coordinator panicked in a closed-loop run: %s", w.coPanic)
			} else {
				e.Undecided("coordinator goroutine panicked: %s", w.coPanic)
			}
			return
		}
		// 1. requests of the running cycle: release one
		if pend := w.Net.Pending(); len(pend) > 0 {
			c := pend[tp.Choose("release", len(pend))]
			v := simnet.Deliver
			p := w.CL.PodByHost(c.Host)
			switch {
			case p == nil || !p.Running:
				v = simnet.FailBefore
			case now().Before(p.UnreachableUntil):
				v = simnet.FailBefore
				e.Fault("shard_unreachable")
			case c.Method == "GET" && now().Before(w.failGetUntil[c.Host]):
				v = simnet.FailBefore
				e.Fault("get_fail")
			case c.Method == "POST" && strings.Contains(c.Path, "/shard/targets") && w.loseNextPost[c.Host] != "":
				if w.loseNextPost[c.Host] == "before" {
					v = simnet.FailBefore
					e.Fault("post_lost_before")
				} else {
					v = simnet.LoseResponse
					e.Fault("post_lost_after")
				}
				w.logf("fault: POST targets to %s lost (%s)", p.Name, w.loseNextPost[c.Host])
				delete(w.loseNextPost, c.Host)
				lastChange = now()
			}
			w.Net.Release(c, v)
			continue
		}
		// 2. a cycle has finished?
		if w.cur != nil {
			w.closeCycle()
		}
		for doneCycles < len(w.Cycles) {
			c := w.Cycles[doneCycles]
			doneCycles++
			tr := w.Trace(c)
			if e.Property == "C19" {
				cyc.Check(tr, which, cyc.PerReplicaReporter{E: e})
			} else {
				cyc.Check(tr, which, cyc.EnvReporter{E: e})
			}
			w.describeCycle(c, tr)
			if e.Failed() {
				return
			}
			w.cycleInvariants(c, tr, phase)
			if e.Failed() {
				return
			}
			// next cycle's schedule parameters
			w.nextSalt = tp.Salt("map_salt")
			w.nextRand = int64(tp.Choose("rand_seed", 1<<16))
			if n := 0; len(w.CL.AllPods()) > 1 {
				n = len(w.CL.AllPods())
				w.CL.PodOrder = tp.Perm("pod_order", min(n, 6))
			}
			// faults are decided at cycle boundaries, biased to cycles that created in-flight state
			if phase == "work" && w.faultsLeft > 0 {
				if w.maybeFault(tr) {
					lastChange = now()
				}
			}
			if phase == "work" && doneCycles >= sc.WorkCycles && evi >= len(sc.Events) {
				phase = "quiet"
				quietStart = doneCycles
				// end every fault window, roll files out
				for _, p := range w.CL.AllPods() {
					p.UnreachableUntil, p.NotReadyUntil, p.ReloadFailUntil, p.StalledUntil, p.TerminatingUntil, p.PromAPIDownUntil = time.Time{}, time.Time{}, time.Time{}, time.Time{}, time.Time{}, time.Time{}
				}
				w.failGetUntil = map[string]time.Time{}
				w.loseNextPost = map[string]string{}
				w.rolloutFiles()
				w.logf("quiet phase begins after %d cycles (%d faults injected)", doneCycles, len(w.faultsDone))
			}
			if phase == "quiet" {
				if ok, stuck := w.converged(); ok {
					sig := w.assignmentSig()
					if stableFrom < 0 || sig != stableSig {
						if stableFrom >= 0 {
							w.logf("assignment changed after convergence")
						}
						stableFrom, stableSig = doneCycles, sig
						if res.ConvergedAt == 0 {
							res.ConvergedAt = doneCycles - quietStart
						}
					}
					if doneCycles-stableFrom >= sc.StableCycles {
						res.Converged = true
						w.logf("converged %d cycles into the quiet phase and stable for %d cycles", stableFrom-quietStart, sc.StableCycles)
						e.Probe("converged")
						e.ProbeN("cycles_to_converge", stableFrom-quietStart)
						return
					}
				} else {
					stableFrom = -1
					res.Stuck = stuck
				}
				if doneCycles-quietStart > sc.QuietCycles {
					return
				}
			}
			if doneCycles > maxCycles {
				return
			}
		}
		// 3. between cycles: controller, probes, discovery, workload, scrapes
		t := now()
		if err := w.CL.Step(t); err != nil {
			e.Undecided("%v", err)
			return
		}
		for evi < len(sc.Events) && w.start.Add(sc.Events[evi].At).Before(t.Add(time.Millisecond)) {
			w.applyEvent(sc.Events[evi])
			evi++
			lastChange = t
		}
		for len(w.dynEvents) > 0 && !w.dynEvents[0].At.After(t) {
			w.applyEvent(w.dynEvents[0].Ev)
			w.dynEvents = w.dynEvents[1:]
			lastChange = t
		}
		w.ReleaseProbes()
		w.ReleaseHeld(t, false)
		w.RunScrapes(t)
		w.trackEmpty(t)
		if phase == "quiet" && int(t.Sub(w.start)/time.Second)%60 == 0 {
			for _, p := range w.CL.AllPods() {
				if p.Prom != nil {
					p.Prom.HeadGC()
				}
			}
		}
		// 4. advance to the next instant at which something is scheduled (at most 1 s)
		next := t.Add(time.Second)
		for _, p := range w.CL.AllPods() {
			if p.Prom != nil && p.Running {
				if d := p.Prom.NextDue(); !d.IsZero() && d.Before(next) && d.After(t) {
					next = d
				}
			}
		}
		sched.Sleep(next.Sub(t))
		_ = lastChange
	}
}

func (w *World) rolloutFiles() {
	for _, p := range w.CL.AllPods() {
		if p.FileMode && p.Running && p.FileText != w.SC.ConfigText(w.cfgSem, w.cfgCos) {
			p.FileText = w.SC.ConfigText(w.cfgSem, w.cfgCos)
			_ = writeFile(p, p.FileText)
			if err := p.SC.ReloadFile(); err != nil {
				w.E.Undecided("file rollout rejected: %v", err)
			}
			w.logf("config file rolled out to %s", p.Name)
		}
	}
}

func (w *World) applyEvent(ev WEvent) {
	sc := w.SC
	t := sc.Targets[ev.Idx%len(sc.Targets)]
	switch ev.Kind {
	case "add_target":
		if !t.InSD {
			t.InSD = true
			w.SendSD()
			w.logf("event: %s discovered", t.Addr)
			w.E.Probe("target_added")
		}
	case "remove_target":
		if t.InSD {
			t.InSD = false
			w.SendSD()
			w.logf("event: %s left discovery", t.Addr)
			w.E.Probe("target_removed")
		}
	case "grow":
		t.Kept += ev.N
		t.Total += ev.N
		w.applyTargetSpec(t)
		w.logf("event: %s grows to (%d,%d)", t.Addr, t.Kept, t.Total)
		w.E.Probe("target_grew")
	case "flip_health":
		t.Healthy = !t.Healthy
		w.applyTargetSpec(t)
		w.logf("event: %s healthy=%v", t.Addr, t.Healthy)
	case "head_gc":
		for _, p := range w.CL.AllPods() {
			if p.Prom != nil {
				p.Prom.HeadGC()
			}
		}
	case "config_edit", "config_cosmetic":
		if ev.Kind == "config_edit" {
			w.cfgSem++
			w.E.Probe("config_edited")
		} else {
			w.cfgCos++
			w.E.Probe("config_cosmetic_edit")
		}
		if err := w.Cfg.ReloadFromRaw([]byte(sc.ConfigText(w.cfgSem, w.cfgCos))); err != nil {
			w.E.Undecided("coordinator rejects the edited configuration: %v", err)
		}
		w.SendSD()
		w.logf("event: coordinator configuration now revision %d.%d (%s)", w.cfgSem, w.cfgCos, ev.Kind)
	case "rollout":
		w.rolloutFiles()
		w.E.Probe("files_rolled_out")
	}
}

// maybeFault decides on a fault at a cycle boundary.
func (w *World) maybeFault(tr *cyc.CycleTrace) bool {
	tp := w.TP
	// cycles that posted a transfer or a first assignment are the interesting moments
	hot := false
	for _, r := range tr.Replicas {
		for _, s := range r.Shards {
			if s.Post != nil {
				hot = true
			}
		}
	}
	num := 1
	if hot {
		num = 3
	}
	if !tp.Bool("inject_fault", num, 8) {
		return false
	}
	kinds := w.SC.FaultKinds
	k := kinds[tp.Choose("fault_kind", len(kinds))]
	pods := w.CL.AllPods()
	var running []*Pod
	for _, p := range pods {
		if p.Running {
			running = append(running, p)
		}
	}
	if len(running) == 0 {
		return false
	}
	p := running[tp.Choose("fault_pod", len(running))]
	if k == "prom_reload_fails" {
		// a shard about to be refilled is the interesting victim: prefer empty ones
		var empty []*Pod
		for _, x := range running {
			if x.EmptySince != nil {
				empty = append(empty, x)
			}
		}
		if len(empty) > 0 && tp.Bool("prefer_empty_pod", 3, 4) {
			p = empty[tp.Choose("fault_empty_pod", len(empty))]
		}
	}
	now := time.Now()
	dur := time.Duration(5+tp.Choose("fault_window_s", 40)) * time.Second
	if k == "prom_api_down" && w.SC.LongAPIDown {
		// prefer a pod that was given targets in this cycle (an empty shard being refilled)
		var given []*Pod
		for _, r := range tr.Replicas {
			for _, s := range r.Shards {
				if len(s.Post) > 0 {
					for _, x := range running {
						if x.Host == s.ID || x.Name == s.ID {
							given = append(given, x)
						}
					}
				}
			}
		}
		dur += w.SC.Opt.MaxIdleTime
		if len(given) > 0 && tp.Bool("prefer_given_pod", 3, 4) {
			p = given[tp.Choose("fault_given_pod", len(given))]
			// ... and whose targets all leave discovery again while the API is still down
			if tp.Bool("given_targets_leave", 2, 3) {
				at := now.Add(time.Duration(10+tp.Choose("leave_after_s", int(dur/time.Second)-10)) * time.Second)
				for _, r := range tr.Replicas {
					for _, s := range r.Shards {
						if s.ID != p.Name && s.ID != p.Host {
							continue
						}
						var hs []uint64
						for h := range s.Post {
							hs = append(hs, h)
						}
						sort.Slice(hs, func(a, b int) bool { return hs[a] < hs[b] })
						for _, h := range hs {
							for i, t := range w.SC.Targets {
								if t.Addr == w.addrOf[h] {
									w.dynEvents = append(w.dynEvents, dynEvent{at, WEvent{Kind: "remove_target", Idx: i}})
								}
							}
						}
					}
				}
			}
		}
	}
	switch k {
	case "post_lost_before":
		w.loseNextPost[p.Host] = "before"
	case "post_lost_after":
		w.loseNextPost[p.Host] = "after"
	case "sidecar_restart":
		if err := w.CL.RestartSidecar(p, now); err != nil {
			w.E.Undecided("sidecar %s does not come back: %v", p.Name, err)
		}
		w.E.Fault("sidecar_restart")
	case "shard_not_ready":
		p.NotReadyUntil = now.Add(dur)
		w.E.Fault("shard_not_ready")
	case "shard_unreachable":
		p.UnreachableUntil = now.Add(dur)
	case "get_fail":
		w.failGetUntil[p.Host] = now.Add(dur)
	case "external_scale":
		r := w.CL.Reps[p.Rep]
		cur := w.CL.Desired(r)
		n := cur + int32(tp.Choose("scale_delta", 3)) - 1
		if n < 0 {
			n = 0
		}
		w.CL.SetDesired(r, n)
		w.E.Fault("external_scale")
		k = fmt.Sprintf("external_scale(%d->%d)", cur, n)
	case "prom_reload_fails":
		p.ReloadFailUntil = now.Add(dur)
		w.E.Fault("prom_reload_fails")
	case "prom_api_down":
		p.PromAPIDownUntil = now.Add(dur)
		w.E.Fault("prom_api_down")
	case "pod_terminating":
		p.TerminatingUntil = now.Add(dur)
		w.E.Fault("pod_terminating")
	case "prom_stalled":
		p.StalledUntil = now.Add(dur + 20*time.Second)
		w.E.Fault("prom_stalled")
	case "config_out_of_sync":
		// the coordinator's configuration changes; file-mode sidecars keep the old file until the rollout
		w.applyEvent(WEvent{Kind: "config_edit"})
		w.E.Fault("config_out_of_sync")
	}
	w.faultsLeft--
	w.faultsDone = append(w.faultsDone, k+"@"+p.Name)
	w.logf("fault: %s on %s (window %s)", k, p.Name, dur)
	return true
}

func (w *World) describeCycle(c *cycleRec, tr *cyc.CycleTrace) {
	e := w.E
	for _, r := range tr.Replicas {
		for _, s := range r.Shards {
			if !s.InSync {
				e.Probe("shard_out_of_sync_cycles")
			}
			if s.PushSeen {
				e.Probe("config_pushed")
			}
			if s.Post == nil {
				continue
			}
			for h, t := range s.Post {
				if st, had := s.Rep[h]; had {
					if st.TargetState == "" && t.TargetState == "in_transfer" {
						e.Probe("transfer_started")
					}
					if st.TargetState == "in_transfer" && t.TargetState == "" {
						e.Probe("transfer_called_off")
					}
				} else {
					e.Probe("target_placed")
				}
			}
			for h, st := range s.Rep {
				if _, still := s.Post[h]; !still {
					if _, act := c.Active[h]; !act {
						e.Probe("gc_vanished")
					} else if st.TargetState == "in_transfer" {
						e.Probe("handover_completed")
					} else {
						e.Probe("duplicate_removed")
					}
				}
			}
		}
		count := int32(len(r.Shards))
		for _, x := range r.Scale {
			if x.Value > count {
				e.Probe("scale_up_requested")
			} else if x.Value < count {
				e.Probe("scale_down_requested")
			}
		}
	}
	var parts []string
	for i, r := range tr.Replicas {
		var ss []string
		for _, s := range r.Shards {
			d := s.ID[strings.LastIndex(s.ID, "-")+1:]
			if !s.InSync {
				d += "!" + s.HealthClass(c.Hash)
			}
			if s.Rep != nil {
				var hs []string
				for _, h := range sidecarsim.SortedHashes(s.Rep) {
					a := w.addrOf[h]
					if i := strings.Index(a, "."); i > 0 {
						a = a[:i]
					}
					hs = append(hs, fmt.Sprintf("%s%s/%d", a, map[string]string{"": "", "in_transfer": "~"}[s.Rep[h].TargetState], s.Rep[h].ScrapeTimes))
				}
				d += "{" + strings.Join(hs, " ") + "}"
			}
			if s.Post != nil {
				var hs []string
				for _, h := range sidecarsim.SortedHashes(s.Post) {
					a := w.addrOf[h]
					if i := strings.Index(a, "."); i > 0 {
						a = a[:i]
					}
					hs = append(hs, a+map[string]string{"": "", "in_transfer": "~"}[s.Post[h].TargetState])
				}
				d += "<-[" + strings.Join(hs, " ") + "]"
				if !s.PostDelivered {
					d += "LOST"
				}
			}
			ss = append(ss, d)
		}
		var sc []string
		for _, x := range r.Scale {
			sc = append(sc, fmt.Sprint(x.Value))
		}
		parts = append(parts, fmt.Sprintf("r%d: %s scale=%s", i, strings.Join(ss, " | "), strings.Join(sc, ",")))
	}
	w.logf("cycle %d: %s", c.N, strings.Join(parts, " ;; "))
}
