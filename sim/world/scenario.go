package world

import (
	"fmt"
	"regexp"
	"strconv"
	"strings"
	"time"

	"kvassverif/core"
	"kvassverif/cyc"
)

type WTarget struct {
	Addr    string `json:"addr"`
	Job     string `json:"job"`
	Total   int    `json:"total"`
	Kept    int    `json:"kept"`
	Healthy bool   `json:"healthy"`
	InSD    bool   `json:"in_sd"`
}

type WEvent struct {
	At   time.Duration `json:"at"`
	Kind string        `json:"kind"` // add_target remove_target grow flip_health head_gc config_edit rollout
	Idx  int           `json:"idx,omitempty"`
	N    int           `json:"n,omitempty"`
}

type Placement struct {
	Rep, Ord int
	Target   int
	State    string
}

type WScenario struct {
	Opt            cyc.Options   `json:"options"`
	Period         time.Duration `json:"period"`
	ScrapeInterval time.Duration `json:"scrape_interval"`
	Replicas       int           `json:"replicas"`
	InitShards     []int32       `json:"init_shards"`
	Jobs           []string      `json:"jobs"`
	Targets        []*WTarget    `json:"targets"`
	DeletePVC      bool          `json:"delete_pvc"`
	InstantHead    bool          `json:"instant_head"`
	HeldScrapes    int           `json:"held_scrapes_per_8"` // share of scrapes that stay in flight across a cycle
	FileMode       bool          `json:"file_mode_sidecars"`
	StartLagMax    int           `json:"start_lag_max_s"`
	Initial        []Placement   `json:"initial_placement,omitempty"`
	Events         []WEvent      `json:"events,omitempty"`
	WorkCycles     int           `json:"work_cycles"`
	FaultBudget    int           `json:"fault_budget"`
	FaultKinds     []string      `json:"fault_kinds,omitempty"`
	QuietCycles    int           `json:"quiet_cycles"`
	StableCycles   int           `json:"stable_cycles"`
	ConfigVersion  int           `json:"-"`
	LongAPIDown    bool          // churn variant: prom_api_down windows outlast max-idle-time and prefer pods that were just given targets
}

type WGen struct {
	Faults     bool
	Replicas2  bool
	ForceTwo   bool // always two replicas
	Thorough   bool
	ShortQuiet bool // cycle oracles only: no need to wait for convergence
	// ReloadFault allows the "Prometheus reload fails" and "Prometheus stalled" faults. It is outside C06's list of
	// faults (kvass does not retry a failed reload, so convergence is not promised under it)
	// and is only used where safety oracles alone are evaluated.
	ReloadFault bool
	// ConfigFocus: file-mode sidecars, many configuration events (semantic edits, cosmetic
	// edits, late file roll-outs), no other faults: C16's "in sync exactly when it runs the
	// coordinator's configuration" over cycles
	ConfigFocus bool
}

var allFaults = []string{"post_lost_before", "post_lost_after", "sidecar_restart", "shard_not_ready", "shard_unreachable", "external_scale", "config_out_of_sync", "get_fail", "prom_reload_fails", "prom_stalled", "pod_terminating", "prom_api_down"}

// GenWorld draws a world scenario.
func GenWorld(tp *core.Tape, g WGen) *WScenario {
	sc := &WScenario{Period: 10 * time.Second, ScrapeInterval: 5 * time.Second}
	sc.Opt.MaxProcessSeries = core.Pick(tp, "max_proc", int64(300), 150, 1000)
	if tp.Bool("head_limit", 1, 2) {
		sc.Opt.MaxHeadSeries = core.Pick(tp, "max_head", int64(200), 100, 400)
	}
	sc.Opt.MinShard = int32(tp.Weighted("min_shard", 4, 3, 1))
	sc.Opt.MaxIdleTime = core.Pick(tp, "max_idle", time.Duration(0), 30*time.Second, 90*time.Second)
	sc.Opt.DisableAlleviate = tp.Bool("disable_alleviate", 1, 6)
	sc.Replicas = 1
	if g.Replicas2 && (g.ForceTwo || tp.Bool("two_replicas", 1, 3)) {
		sc.Replicas = 2
	}
	for r := 0; r < sc.Replicas; r++ {
		sc.InitShards = append(sc.InitShards, int32(1+tp.Weighted("init_shards", 3, 4, 2, 1)))
	}
	sc.Jobs = []string{"ja"}
	if tp.Bool("two_jobs", 1, 2) {
		sc.Jobs = append(sc.Jobs, "jb")
	}
	lim := sc.Opt.MaxProcessSeries
	if sc.Opt.MaxHeadSeries != 0 && sc.Opt.MaxHeadSeries < lim {
		lim = sc.Opt.MaxHeadSeries
	}
	n := 2 + tp.Weighted("targets", 2, 3, 3, 3, 2, 2, 1, 1, 1, 1)
	for i := 0; i < n; i++ {
		t := &WTarget{Addr: fmt.Sprintf("w%d.example:9100", i+1), Job: sc.Jobs[tp.Choose("job", len(sc.Jobs))], Healthy: !tp.Bool("unhealthy", 1, 8), InSD: !tp.Bool("late_target", 1, 6)}
		switch tp.Weighted("size", 5, 3, 2, 1, 1) {
		case 0:
			t.Kept = 1 + tp.Choose("kept_small", int(lim/8)+1)
		case 1:
			t.Kept = int(lim/4) + tp.Choose("kept_mid", int(lim/4)+1)
		case 2:
			t.Kept = int(lim/2) + tp.Choose("kept_big", int(lim/3)+1)
		case 3:
			t.Kept = int(lim) + 1 + tp.Choose("kept_over", 20) // larger than a shard
		case 4:
			t.Kept = 0
		}
		t.Total = t.Kept + core.Pick(tp, "dropped", 0, 0, 3, int(lim/4))
		if tp.Bool("total_over", 1, 12) {
			t.Total = int(sc.Opt.MaxProcessSeries) + 1 + tp.Choose("total_over_by", 30)
		}
		sc.Targets = append(sc.Targets, t)
	}
	sc.Opt.MaxShard = int32(n + 4)
	sc.DeletePVC = tp.Bool("delete_pvc", 1, 2)
	sc.InstantHead = tp.Bool("instant_head", 1, 2)
	sc.HeldScrapes = core.Pick(tp, "held_scrapes", 0, 1, 3)
	sc.FileMode = tp.Bool("file_mode", 1, 3)
	sc.StartLagMax = core.Pick(tp, "start_lag", 0, 8, 25)
	// arbitrary initial placement
	if tp.Bool("initial_placement", 2, 3) {
		for i, t := range sc.Targets {
			if !t.InSD && !tp.Bool("place_unknown", 1, 4) {
				continue
			}
			r := tp.Choose("place_rep", sc.Replicas)
			ns := int(sc.InitShards[r])
			switch tp.Weighted("place_kind", 4, 3, 1, 1, 1, 1) {
			case 5: // both copies in_transfer, no normal copy anywhere
				sc.Initial = append(sc.Initial, Placement{r, tp.Choose("place_ord", ns), i, "in_transfer"}, Placement{r, tp.Choose("place_ord2", ns), i, "in_transfer"})
			case 1: // one normal copy
				sc.Initial = append(sc.Initial, Placement{r, tp.Choose("place_ord", ns), i, ""})
			case 2: // duplicate
				sc.Initial = append(sc.Initial, Placement{r, tp.Choose("place_ord", ns), i, ""}, Placement{r, tp.Choose("place_ord2", ns), i, ""})
			case 3: // pending transfer
				sc.Initial = append(sc.Initial, Placement{r, tp.Choose("place_ord", ns), i, "in_transfer"}, Placement{r, tp.Choose("place_ord2", ns), i, ""})
			case 4: // stuck in_transfer without partner
				sc.Initial = append(sc.Initial, Placement{r, tp.Choose("place_ord", ns), i, "in_transfer"})
			}
		}
	}
	// workload
	sc.WorkCycles = tp.Range("work_cycles", 4, 30)
	ne := tp.Weighted("n_events", 2, 3, 3, 2, 1)
	for i := 0; i < ne; i++ {
		ev := WEvent{At: time.Duration(tp.Choose("event_at", sc.WorkCycles*10)) * time.Second}
		ev.Kind = core.Pick(tp, "event_kind", "add_target", "remove_target", "grow", "flip_health", "head_gc", "config_edit")
		ev.Idx = tp.Choose("event_target", n)
		ev.N = 1 + tp.Choose("event_n", 60)
		sc.Events = append(sc.Events, ev)
	}
	if g.Faults {
		sc.FaultBudget = 1 + tp.Weighted("fault_budget", 3, 3, 2, 1)
		for _, k := range allFaults {
			if (k == "prom_reload_fails" || k == "prom_stalled") && !g.ReloadFault {
				continue
			}
			if tp.Bool("fault_enabled", 3, 5) {
				sc.FaultKinds = append(sc.FaultKinds, k)
			}
		}
		if len(sc.FaultKinds) == 0 {
			sc.FaultKinds = []string{"post_lost_before"}
		}
	}
	// flavour "churn": targets come and go all the time on small shards with a short idle
	// time, so that shards keep becoming idle, being refilled and being scaled away
	if tp.Bool("churn_flavour", 1, 4) {
		sc.Opt.MaxIdleTime = 30 * time.Second
		sc.Opt.MinShard = 0
		for _, t := range sc.Targets {
			if t.Kept > int(lim)/2 {
				t.Kept = int(lim) / 3
				t.Total = t.Kept
			}
		}
		sc.WorkCycles = 20 + tp.Choose("churn_cycles", 20)
		sc.Events = nil
		ne := 6 + tp.Choose("churn_events", 10)
		for i := 0; i < ne; i++ {
			sc.Events = append(sc.Events, WEvent{At: time.Duration(tp.Choose("event_at", sc.WorkCycles*10)) * time.Second,
				Kind: core.Pick(tp, "churn_kind", "remove_target", "add_target", "remove_target", "add_target", "grow"), Idx: tp.Choose("event_target", n), N: 1 + tp.Choose("event_n", 30)})
		}
		if g.Faults {
			sc.FaultBudget = 3 + tp.Choose("churn_faults", 3)
			sc.FaultKinds = []string{core.Pick(tp, "churn_fault1", "sidecar_restart", "post_lost_after", "external_scale"), core.Pick(tp, "churn_fault2", "sidecar_restart", "post_lost_before", "shard_not_ready", "shard_unreachable")}
			if g.ReloadFault {
				sc.FaultKinds[0] = "prom_reload_fails"
				// the sidecar's Prometheus API going away for longer than max-idle-time, right
				// after an empty shard was refilled: whatever the sidecar says about itself
				// meanwhile must not make a busy shard look idle since long ago
				if tp.Bool("churn_api_down", 1, 3) {
					sc.FaultKinds = []string{"prom_api_down"}
					sc.LongAPIDown = true
				}
			}
		}
	}
	if g.ConfigFocus {
		sc.FileMode = true
		sc.WorkCycles = 12 + tp.Choose("cfg_cycles", 20)
		sc.Events = nil
		ne := 3 + tp.Choose("cfg_events", 8)
		for i := 0; i < ne; i++ {
			sc.Events = append(sc.Events, WEvent{At: time.Duration(tp.Choose("event_at", sc.WorkCycles*10)) * time.Second,
				Kind: core.Pick(tp, "cfg_kind", "config_edit", "config_cosmetic", "rollout", "config_cosmetic", "add_target"), Idx: tp.Choose("event_target", n)})
		}
		sc.FaultBudget = 0
	}
	sc.QuietCycles = 140
	sc.StableCycles = 12
	if g.ShortQuiet {
		sc.QuietCycles = 25
	}
	return sc
}

// ConfigText renders the coordinator's configuration. sem counts semantic edits (a job
// setting changes), cos counts cosmetic ones (only an external label and a comment change).
func (sc *WScenario) ConfigText(sem, cos int) string {
	var b strings.Builder
	fmt.Fprintf(&b, "# revision %d.%d\nglobal:\n  scrape_interval: %s\n  scrape_timeout: 4s\n  external_labels:\n    v: \"%d\"\nscrape_configs:\n", sem, cos, sc.ScrapeInterval, cos)
	for _, j := range sc.Jobs {
		fmt.Fprintf(&b, "- job_name: %s\n  sample_limit: %d\n  metric_relabel_configs:\n  - source_labels: [__name__]\n    regex: drop_.*\n    action: drop\n  static_configs:\n  - targets: ['placeholder:1']\n", j, 100000+sem)
	}
	return b.String()
}

var semRe = regexp.MustCompile(`sample_limit: (\d+)`)

// SemOf extracts the semantic revision from a configuration text (-1 if none).
func SemOf(text string) int {
	m := semRe.FindStringSubmatch(text)
	if m == nil {
		return -1
	}
	n, _ := strconv.Atoi(m[1])
	return n - 100000
}

// Eligible: discovered, healthy, strictly fits an empty shard. Equality with a limit is unasserted.
func (sc *WScenario) Class(t *WTarget) string {
	o := sc.Opt
	switch {
	case !t.InSD:
		return "undiscovered"
	case !t.Healthy:
		return "unhealthy"
	case (o.MaxHeadSeries != 0 && int64(t.Kept) > o.MaxHeadSeries) || int64(t.Total) > o.MaxProcessSeries:
		return "oversized"
	case (o.MaxHeadSeries != 0 && int64(t.Kept) >= o.MaxHeadSeries) || int64(t.Total) >= o.MaxProcessSeries:
		return "at-limit"
	}
	return "eligible"
}
