package world

import (
	"fmt"
	"strings"
	"time"

	"kvassverif/core"
	"kvassverif/cyc"
	_ "kvassverif/node" // its specs (C16) must be registered before this package's init extends them
)

var realWorld = []string{"coordinator.Coordinator.Run (real cycles on the fake clock)", "discovery.TargetsDiscovery, explore.Explore, prom.ConfigManager wired as cmd/kvass/coordinator.go", "kubernetes.ReplicasManager / shardManager over a fake clientset", "shard.Shard + pkg/api over the simulated transport", "per pod a real sidecar: the command body of cmd/kvass/sidecar.go (TargetsManager + store directory, Service (gin), Proxy, Injector, ConfigManager, scrape.Manager, prom.Client)"}
var stubWorld = []string{"Kubernetes API server (client-go fake) + StatefulSet controller stub (creates/deletes pods, volumes, status)", "Prometheus per shard (real config.Load + scrape.TargetsFromGroup on the generated file, scrape timers on the fake clock, head-series counter)", "Prometheus SD manager (sim emits full target-group maps)", "scrape targets (generated payloads, health, growth)", "network (simnet: requests park and are released in PRNG order with injected loss)"}

func worldRun(g WGen, which cyc.Which, prop string) core.RunFunc {
	return func(tp *core.Tape, e *core.Env) {
		sc := GenWorld(tp, g)
		res := Run(tp, e, sc, which)
		if e.Failed() {
			return
		}
		// coverage key: shape of the scenario
		fk := append([]string{}, sc.FaultKinds...)
		if sc.FaultBudget == 0 {
			fk = nil
		}
		e.Key(fmt.Sprintf("shards=%v", sc.InitShards), fmt.Sprintf("targets=%d", len(sc.Targets)/3), fmt.Sprintf("initial=%d", min(len(sc.Initial), 3)),
			fmt.Sprintf("events=%d", len(sc.Events)), fmt.Sprintf("head=%v", sc.Opt.MaxHeadSeries != 0), fmt.Sprintf("idle=%v", sc.Opt.MaxIdleTime != 0), strings.Join(fk, "+"))
		if !res.Converged && (e.Property == "C03" || e.Property == "C06") {
			cls := stuckClass(res.Stuck)
			e.Violate("not-converged", cls, "after the last change the system did not reach the converged state within %d fault-free cycles (stuck: %v)", sc.QuietCycles, res.Stuck)
		}
	}
}

func init() {
	// the cycle properties are also evaluated on every cycle of closed-loop runs with faults
	for id, w := range map[string]cyc.Which{"C01": {C01: true}, "C04": {C04: true}, "C05": {C05: true}, "C07": {C07: true}, "C08": {C08: true}} {
		if sp, err := core.Lookup(id); err == nil {
			sp.Extra = worldRun(WGen{Faults: true, Replicas2: true, ShortQuiet: true, ReloadFault: true}, w, id)
			sp.ExtraEvery = 157
			sp.ExtraNote = "every 157th run is a closed-loop world run (real sidecars, faults) whose every cycle is fed to the same oracle"
			sp.Rule += "; every 157th run is a closed-loop world run (real coordinator + real sidecars + Prometheus stubs on the fake clock, with faults) whose every cycle trace goes through the same oracle (a quarter of them in the churn flavour, a third of those with the fault \"sidecar's Prometheus API down for longer than max-idle-time on a shard that was just refilled, whose targets leave discovery meanwhile\")"
			sp.TapeCap = 400000
		}
	}
	if sp, err := core.Lookup("C19"); err == nil {
		sp.Extra = worldRun(WGen{Faults: true, Replicas2: true, ForceTwo: true, ShortQuiet: true, ReloadFault: true}, cyc.All(), "C19")
		sp.ExtraEvery = 151
		sp.Rule += "; every 151st run is a closed-loop world run with two replicas (real sidecars, faults) in which every cycle oracle of C01/C04/C05/C07/C08 is evaluated per replica"
		sp.TapeCap = 400000
	}
	if sp, err := core.Lookup("C14"); err == nil {
		sp.Extra = worldRun(WGen{Faults: true, ShortQuiet: true}, cyc.Which{}, "C14")
		sp.ExtraEvery = 29
		sp.Rule += "; every 29th run is a closed-loop world run: every runtimeinfo answer the coordinator obtains must equal the sums over the status map it obtained from the same shard in the same cycle (process = sum of totals, head >= sum of series and >= the Prometheus stub's head)"
		sp.TapeCap = 400000
	}
	if sp, err := core.Lookup("C16"); err == nil {
		sp.Extra = worldRun(WGen{ConfigFocus: true, ShortQuiet: true}, cyc.Which{}, "C16")
		sp.ExtraEvery = 13
		sp.Rule += "; every 13th run is a closed-loop world run with file-mode and push-mode sidecars and drawn configuration events (semantic edits, cosmetic edits that only touch an external label and a comment, late file roll-outs): at every cycle a shard must be treated as in sync exactly when the configuration it runs has the coordinator's semantic revision"
		sp.TapeCap = 400000
	}
	core.Register(&core.Spec{
		ID: "C03", Engine: "world", Run: worldRun(WGen{}, cyc.Which{}, "C03"),
		QuickRuns: 1200, ThorRuns: 60000, QuickCap: 80 * time.Second, ThorCap: 14 * time.Minute, SelfCheckRuns: 8, TapeCap: 400000,
		Rule: "a closed-loop run without faults: 1-4 initial shards, 2-12 targets (sizes small / mid / big / oversized / zero, unhealthy, late), an arbitrary initial placement posted to the real sidecars (single, duplicate, pending transfer, stuck in_transfer copies), a workload phase of 4-30 cycles with drawn events (targets discovered / removed, growth, health flips, head GC, configuration edits), then a quiet phase; the real coordinator runs its cycles on the fake clock against real sidecars scraped by Prometheus stubs; the end-state predicate must hold within the budget and stay unchanged for 12 more cycles; at every cycle with all shards in sync an eligible unscraped target that was not placed must raise the requested shard count; a case is (initial shards, targets/3, initial placement size, events, head limit?, idle time?)",
		Real: realWorld, Stub: stubWorld,
		SchedLabels: []string{"release", "inject_fault", "fault_kind", "fault_pod", "fault_window_s", "hold_scrape", "pod_order", "map_salt?", "map_salt.a", "map_salt.b", "rand_seed", "event_at", "event_kind"},
		Assume:      []string{"budget: 140 fault-free cycles of 10 s in the quiet phase (measured worst case is reported by the probe cycles_to_converge); max-shard = targets + 4 so that 'enough allowed shards' holds", "eligible = discovered, target stub healthy, strictly below both limits on an empty shard; targets exactly at a limit and unhealthy targets are not asserted on"},
	})
	core.Register(&core.Spec{
		ID: "C06", Engine: "world", Run: worldRun(WGen{Faults: true}, cyc.Which{}, "C06"),
		QuickRuns: 1200, ThorRuns: 60000, QuickCap: 80 * time.Second, ThorCap: 14 * time.Minute, SelfCheckRuns: 8, TapeCap: 400000,
		Rule: "the C03 closed loop with a fault phase: up to 4 faults from a drawn enabled subset of {target POST lost before / after taking effect, sidecar restart from its store, shard not ready (window), shard unreachable (window), GETs failing (window), external scale change, coordinator configuration edit with file-mode sidecars rolled out late}, decided at cycle boundaries and biased to cycles that posted transfers or assignments; then all fault windows end and the quiet phase must reach the C03 end state (nothing in_transfer, duplicated or unscraped for ever); a case is the scenario shape x enabled fault kinds",
		Real: realWorld, Stub: stubWorld,
		SchedLabels: []string{"release", "inject_fault", "fault_kind", "fault_pod", "fault_window_s", "hold_scrape", "pod_order", "map_salt?", "map_salt.a", "map_salt.b", "rand_seed", "event_at", "event_kind"},
		Assume:      []string{"same budget and eligibility as C03, counted from the start of the quiet phase (all fault windows are ended there)"},
	})
}
