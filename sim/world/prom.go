// Package world is the world engine: the real coordinator (with real discovery,
// explorer and configuration manager), real kubernetes shard managers over an
// API-server stub with a StatefulSet-controller stub, and real sidecars with
// Prometheus stubs and simulated scrape targets, in a closed loop on the fake
// clock, with faults injected at the harness-owned boundaries.
package world

import (
	"fmt"
	"net/http"
	"net/http/httptest"
	"os"
	"sort"
	"time"

	"github.com/go-kit/log"
	"github.com/prometheus/prometheus/config"
	"github.com/prometheus/prometheus/discovery"
	pscrape "github.com/prometheus/prometheus/scrape"

	"kvassverif/sidecarsim"
)

// PromTarget is one target the Prometheus stub scrapes.
type PromTarget struct {
	Key      string // job + URL
	Job      string
	URL      string
	Host     string // real target host (from the URL)
	Interval time.Duration
	NextAt   time.Time
	LastKept int
	Scrapes  int
}

// PromStub stands in for the Prometheus of one shard: it loads the real generated
// file with the real config.Load on every reload, expands targets with the real
// scrape.TargetsFromGroup, scrapes through the real proxy on the fake clock and
// keeps a head-series count.
type PromStub struct {
	Targets   map[string]*PromTarget
	Reloads   int
	Rejected  int // reloads whose file did not load (previous config stays, as Prometheus does)
	LastErr   string
	headInst  bool           // instant head (sum of current targets) vs sticky until GC
	headSeen  map[string]int // sticky: everything scraped since the last head GC
	APIDown   bool
	offsetFor func(key string) time.Duration
}

func NewPromStub(instant bool, offsetFor func(string) time.Duration) *PromStub {
	return &PromStub{Targets: map[string]*PromTarget{}, headInst: instant, headSeen: map[string]int{}, offsetFor: offsetFor}
}

// Reload re-reads the generated file.
func (p *PromStub) Reload(file string, now time.Time) {
	p.Reloads++
	data, err := os.ReadFile(file)
	if err != nil {
		p.Rejected++
		p.LastErr = err.Error()
		return
	}
	cfg, err := config.Load(string(data), false, log.NewNopLogger())
	if err != nil {
		p.Rejected++
		p.LastErr = err.Error()
		return
	}
	p.LastErr = ""
	nt := map[string]*PromTarget{}
	for _, sc := range cfg.ScrapeConfigs {
		for _, sdc := range sc.ServiceDiscoveryConfigs {
			st, ok := sdc.(discovery.StaticConfig)
			if !ok {
				continue
			}
			for _, g := range st {
				ts, _ := pscrape.TargetsFromGroup(g, sc)
				for _, t := range ts {
					if t.Labels().Len() == 0 {
						continue
					}
					u := t.URL()
					key := sc.JobName + " " + u.String()
					if old := p.Targets[key]; old != nil {
						nt[key] = old
						continue
					}
					iv := time.Duration(sc.ScrapeInterval)
					nt[key] = &PromTarget{Key: key, Job: sc.JobName, URL: u.String(), Host: u.Host, Interval: iv, NextAt: now.Add(p.offsetFor(key) % iv)}
				}
			}
		}
	}
	p.Targets = nt
}

// Due returns the targets whose scrape time has come, in key order.
func (p *PromStub) Due(now time.Time) []*PromTarget {
	var out []*PromTarget
	for _, t := range p.Targets {
		if !t.NextAt.After(now) {
			out = append(out, t)
		}
	}
	sort.Slice(out, func(a, b int) bool { return out[a].Key < out[b].Key })
	return out
}

// NextDue is the earliest scheduled scrape (zero if none).
func (p *PromStub) NextDue() time.Time {
	var m time.Time
	for _, t := range p.Targets {
		if m.IsZero() || t.NextAt.Before(m) {
			m = t.NextAt
		}
	}
	return m
}

// ScrapeOne sends the request a proxying Prometheus would send through the real proxy.
func (p *PromStub) ScrapeOne(sc *sidecarsim.Sidecar, t *PromTarget, now time.Time, keptOf func(body []byte) int) (ok bool, code int) {
	rr := httptest.NewRecorder()
	aborted := sc.Scrape(rr, t.URL)
	t.NextAt = now.Add(t.Interval)
	t.Scrapes++
	if aborted || rr.Code != http.StatusOK {
		return false, rr.Code
	}
	k := keptOf(rr.Body.Bytes())
	t.LastKept = k
	if k > p.headSeen[t.Key] {
		p.headSeen[t.Key] = k
	}
	return true, rr.Code
}

// Head is Prometheus' own head-series count.
func (p *PromStub) Head() (int64, error) {
	if p.APIDown {
		return 0, fmt.Errorf("prometheus api down")
	}
	var s int64
	if p.headInst {
		for _, t := range p.Targets {
			s += int64(t.LastKept)
		}
		return s, nil
	}
	for _, v := range p.headSeen {
		s += int64(v)
	}
	return s, nil
}

// HeadGC drops series of targets that are no longer scraped.
func (p *PromStub) HeadGC() {
	n := map[string]int{}
	for k, t := range p.Targets {
		n[k] = t.LastKept
	}
	p.headSeen = n
}
