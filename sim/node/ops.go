package node

import (
	"fmt"
	"net/http/httptest"
	"sort"
	"strings"
	"testing/synctest"
	"time"

	"kvassverif/core"
	"kvassverif/sched"
	"kvassverif/sidecarsim"

	"tkestack.io/kvass/pkg/shard"
	"tkestack.io/kvass/pkg/target"
)

var universe = []uint64{101, 102, 103, 104, 105, 106}

// owner maps (field, kind of the preceding operation) to the property that
// states it.
func owner(field, op string) string {
	switch field {
	case "series", "total", "process", "head", "samples":
		if op == "scrape" || op == "read" {
			return "C14"
		}
		return "C10"
	case "times", "health", "lasterror", "lastscrape":
		if op == "scrape" {
			return "C13"
		}
		return "C10"
	}
	return "C10"
}

type opRec struct {
	Kind string      `json:"op"`
	Arg  interface{} `json:"arg,omitempty"`
}

type nodeCfg struct {
	updW, scrapeW, restartW, advW int
	overlapW                      int // a scrape in flight while an update is applied
	minOps, maxOps                int
	failW                         int // weight of failing scrapes (vs 10 success)
	bigPayload                    bool
}

func modelRun(cfg nodeCfg) core.RunFunc {
	return func(tp *core.Tape, e *core.Env) {
		var ops []opRec
		problem := sidecarsim.InBubble(e.T, func() {
			ops = modelRunBubble(tp, e, cfg)
		})
		if problem != "" {
			e.Undecided("node engine: %s", problem)
		}
		if len(ops) > 40 {
			ops = ops[:40]
		}
		e.SetSample(map[string]interface{}{"config": "NodeConfig (3 jobs; j1 drops drop_.* metrics; j2 rewrites code=200 to keep=no, drops keep=no and label drop_label)", "operations": ops})
	}
}

func modelRunBubble(tp *core.Tape, e *core.Env, cfg nodeCfg) (ops []opRec) {
	start := time.Now()
	fileMode := tp.Bool("file_mode", 1, 3)
	n, err := StartNode(e, "node", fileMode, NodeConfig)
	if err != nil {
		e.Undecided("cannot start sidecar: %v", err)
		return
	}
	defer n.Cleanup()
	m := NewModel(start)
	n.Head = int64(tp.Choose("prom_head", 4)) * 7
	cur := map[uint64]*target.Target{} // current assignment (for sticky generation)
	curJob := map[uint64]string{}
	kinds := map[string]bool{}

	check := func(op string) {
		st, err := n.SC.GetStatus()
		if err != nil {
			e.Undecided("GET status failed: %v", err)
			return
		}
		for _, mm := range m.CompareStatus(st) {
			if p := owner(mm.field, op); p == e.Property {
				e.Violate("bookkeeping", "field="+mm.field+",after="+op, "after %s: %s", op, mm.msg)
			}
		}
		rt, err := n.SC.GetRuntime()
		if err != nil {
			if !n.HeadErr {
				if e.Property == "C10" {
					e.Violate("runtime", "field=answer,after="+op, "after %s: GET runtimeinfo fails although nothing is wrong with the sidecar or its Prometheus: %v", op, err)
				} else {
					e.Undecided("GET runtimeinfo failed: %v", err)
				}
			}
			return
		}
		for _, mm := range m.CompareRuntime(rt, n.Head) {
			if p := owner(mm.field, op); p == e.Property {
				e.Violate("runtime", "field="+mm.field+",after="+op, "after %s: %s", op, mm.msg)
			}
		}
		if e.Property == "C14" {
			checkSamples(e, n, m, op)
		}
	}
	check("start")

	nOps := tp.Range("n_ops", cfg.minOps, cfg.maxOps)
	for i := 0; i < nOps && !e.Failed(); i++ {
		switch tp.Weighted("op", cfg.updW, cfg.scrapeW, cfg.restartW, cfg.advW, cfg.overlapW) {
		case 4: // a scrape of an assigned target is in flight while an update that keeps it is applied
			var assigned []uint64
			for _, h := range universe {
				if _, ok := cur[h]; ok {
					assigned = append(assigned, h)
				}
			}
			if len(assigned) == 0 {
				continue
			}
			h := assigned[tp.Choose("overlap_hash", len(assigned))]
			job := curJob[h]
			samples := GenSamples(tp, 1+tp.Choose("n_samples", 4))
			hold := make(chan struct{})
			n.Targets.Set(TargetHost(h), &sidecarsim.TargetSpec{Payload: Render(samples, false, false, false), Hold: hold})
			at := time.Now()
			done := make(chan struct{})
			go func() { defer close(done); n.ScrapeRec(h, job) }()
			synctest.Wait() // the scrape is parked at the target
			// the update keeps h (possibly flipping its state) and may change the others
			req := map[string][]*target.Target{}
			for _, oh := range sidecarsim.SortedHashes(cur) { // never draw in map order
				c := *cur[oh]
				if oh == h {
					if tp.Bool("overlap_flip", 1, 2) {
						if c.TargetState == "" {
							c.TargetState = "in_transfer"
						} else {
							c.TargetState = ""
						}
					}
				} else if tp.Bool("overlap_drop_other", 1, 3) {
					continue
				}
				req[curJob[oh]] = append(req[curJob[oh]], &c)
			}
			nc := map[uint64]*target.Target{}
			nj := map[uint64]string{}
			var desc []string
			for _, j := range Jobs {
				for _, t := range req[j] {
					nc[t.Hash] = t
					nj[t.Hash] = j
					desc = append(desc, fmt.Sprintf("%s/%d:%s", j, t.Hash, t.TargetState))
				}
			}
			sort.Strings(desc)
			if err := n.SC.PostTargets(&shard.UpdateTargetsRequest{Targets: req}); err != nil {
				e.Undecided("POST targets failed: %v", err)
				close(hold)
				<-done
				return
			}
			cur, curJob = nc, nj
			m.Update(req, time.Now())
			close(hold)
			<-done
			total, kept, pm := Counts(samples, JobRelabel(job))
			m.Scrape(h, at, true, total, kept, pm)
			e.Logf("op %d scrape of %d in flight during update [%s]", i, h, strings.Join(desc, " "))
			ops = append(ops, opRec{"scrape-overlapping-update", fmt.Sprintf("%d during [%s]", h, strings.Join(desc, " "))})
			e.Probe("scrape_overlapped_update")
			kinds["overlap"] = true
			check("scrape")
		case 0: // update
			req := map[string][]*target.Target{}
			mode := tp.Weighted("update_mode", 6, 1, 1)
			if mode == 2 && len(cur) > 0 { // repeat the current assignment
				for _, h := range sidecarsim.SortedHashes(cur) { // list order must not depend on map order
					c := *cur[h]
					req[curJob[h]] = append(req[curJob[h]], &c)
				}
			} else if mode != 1 { // mode 1 = empty
				for _, h := range universe {
					_, had := cur[h]
					in := false
					if had {
						in = !tp.Bool("drop", 1, 4)
					} else {
						in = tp.Bool("add", 1, 3)
					}
					if !in {
						continue
					}
					job := curJob[h]
					if job == "" || tp.Bool("move_job", 1, 8) {
						job = Jobs[tp.Choose("job", len(Jobs))]
					}
					state := ""
					if had {
						state = cur[h].TargetState
						if tp.Bool("flip", 1, 4) {
							if state == "" {
								state = "in_transfer"
							} else {
								state = ""
							}
						}
					} else if tp.Bool("new_in_transfer", 1, 8) {
						state = "in_transfer"
					}
					req[job] = append(req[job], MkTarget(h, job, state, int64(tp.Choose("est_series", 5)*3), int64(tp.Choose("est_total", 5)*4)))
				}
			}
			// a job that is named in the request with an empty list is assigned nothing
			if mode != 2 && tp.Bool("job_key_with_empty_list", 1, 4) {
				job := Jobs[tp.Choose("empty_list_job", len(Jobs))]
				if len(req[job]) == 0 {
					req[job] = []*target.Target{}
					e.Probe("job_key_with_empty_list")
				}
			}
			var desc []string
			cur = map[uint64]*target.Target{}
			curJob = map[uint64]string{}
			for _, job := range Jobs {
				if ts, ok := req[job]; ok && len(ts) == 0 {
					desc = append(desc, job+"/-")
				}
				for _, t := range req[job] {
					cur[t.Hash] = t
					curJob[t.Hash] = job
					desc = append(desc, fmt.Sprintf("%s/%d:%s(%d,%d)", job, t.Hash, t.TargetState, t.Series, t.TotalSeries))
				}
			}
			sort.Strings(desc)
			e.Logf("op %d update [%s]", i, strings.Join(desc, " "))
			ops = append(ops, opRec{"update", desc})
			if cfg.overlapW > 0 && tp.Bool("second_update_overlaps", 1, 8) {
				// two updates are in flight in the sidecar at once (a slow reload, a retry of the
				// coordinator): A is taken first, B second, their callbacks finish in a drawn order.
				// B was taken last, so B is what the sidecar holds - and what a restart must resume.
				reqB := map[string][]*target.Target{}
				if !tp.Bool("overlap_b_empty", 1, 2) {
					for _, job := range Jobs {
						for _, t := range req[job] {
							if tp.Bool("overlap_b_drops", 1, 3) {
								continue
							}
							c := *t
							if tp.Bool("overlap_b_flips", 1, 4) {
								if c.TargetState == "" {
									c.TargetState = "in_transfer"
								} else {
									c.TargetState = ""
								}
							}
							reqB[job] = append(reqB[job], &c)
						}
					}
				}
				s := sched.Install()
				var errA, errB error
				doneA, doneB := make(chan struct{}), make(chan struct{})
				tA := time.Now()
				go func() { defer close(doneA); errA = n.SC.PostTargets(&shard.UpdateTargetsRequest{Targets: req}) }()
				synctest.Wait()
				tB := time.Now()
				go func() { defer close(doneB); errB = n.SC.PostTargets(&shard.UpdateTargetsRequest{Targets: reqB}) }()
				for step := 0; step < 200; step++ {
					synctest.Wait()
					pend := s.Pending()
					if len(pend) == 0 {
						break
					}
					s.Release(pend[tp.Choose("yield", len(pend))])
				}
				s.Uninstall()
				<-doneA
				<-doneB
				if errA != nil || errB != nil {
					e.Undecided("overlapping updates failed: %v / %v", errA, errB)
					return
				}
				m.Update(req, tA)
				m.Update(reqB, tB)
				cur = map[uint64]*target.Target{}
				curJob = map[uint64]string{}
				for _, job := range Jobs {
					for _, t := range reqB[job] {
						cur[t.Hash] = t
						curJob[t.Hash] = job
					}
				}
				e.Probe("updates_overlapped")
				kinds["update"] = true
				ops = append(ops, opRec{"second update overlapping the first", len(reqB)})
				e.Logf("op %d a second update (%d jobs) overlaps this one", i, len(reqB))
				check("update")
				if e.Failed() {
					return
				}
				// and the store agrees with what the sidecar holds
				restartAt := time.Now()
				if err := n.Restart(NodeConfig, fileMode); err != nil {
					e.Undecided("restart failed: %v", err)
					return
				}
				m.Restart(restartAt)
				cur = map[uint64]*target.Target{}
				curJob = map[uint64]string{}
				for h, p := range m.disk {
					cur[h] = MkTarget(h, p.job, p.state, p.series, p.total)
					curJob[h] = p.job
				}
				m.jobOf = map[uint64]string{}
				for h, p := range m.disk {
					m.jobOf[h] = p.job
				}
				e.Fault("sidecar_restart")
				kinds["restart"] = true
				check("restart")
				continue
			}
			reloadFails := tp.Bool("prom_reload_fails", 1, 8)
			if reloadFails {
				n.SC.ReloadErr = fmt.Errorf("prometheus reload failed (injected)")
			}
			err := n.SC.PostTargets(&shard.UpdateTargetsRequest{Targets: req})
			n.SC.ReloadErr = nil
			if reloadFails {
				e.Fault("prom_reload_fails")
				if err == nil {
					e.Violate("failed-update-acknowledged", "", "the Prometheus reload failed during a target update but the update was acknowledged")
					return
				}
				// not acknowledged: the store keeps the previous assignment; in memory the sidecar
				// may hold the old or the new one, but the two must not be mixed
				st, _ := n.SC.GetStatus()
				same := func(keys map[uint64]bool) bool {
					if len(keys) != len(st) {
						return false
					}
					for h := range keys {
						if st[h] == nil {
							return false
						}
					}
					return true
				}
				newKeys, oldKeys := map[uint64]bool{}, map[uint64]bool{}
				for h := range cur {
					newKeys[h] = true
				}
				for h := range m.entries {
					oldKeys[h] = true
				}
				switch {
				case same(newKeys):
					m.UpdateMemoryOnly(req, time.Now())
				case same(oldKeys):
				default:
					e.Violate("failed-update-mixed-state", "", "after a target update whose Prometheus reload failed the status map is neither the old nor the new assignment")
					return
				}
				// the coordinator only knows what the shard reports; the next successful update repairs it
				cur = map[uint64]*target.Target{}
				curJob = map[uint64]string{}
				for h := range m.entries {
					cur[h] = MkTarget(h, m.jobOf[h], m.entries[h].state, m.entries[h].series, m.entries[h].total)
					curJob[h] = m.jobOf[h]
				}
				check("update")
				continue
			}
			if err != nil {
				e.Undecided("POST targets failed without an injected fault: %v", err)
				return
			}
			m.Update(req, time.Now())
			kinds["update"] = true
			if len(req) == 0 {
				e.Probe("empty_update")
			}
			check("update")
		case 1: // scrape
			h := universe[tp.Choose("scrape_hash", len(universe))]
			job := curJob[h]
			assigned := job != ""
			if !assigned || tp.Bool("scrape_other_job", 1, 10) {
				job = Jobs[tp.Choose("scrape_job", len(Jobs))]
			}
			fail := ""
			if tp.Weighted("scrape_outcome", 10, cfg.failW) == 1 {
				fail = core.Pick(tp, "fail_kind", "connect", "status", "break", "timeout")
			}
			ns := tp.Weighted("n_samples", 2, 3, 3, 2, 1, 1)
			if ns == 5 {
				ns = 40
			}
			samples := GenSamples(tp, ns)
			big := cfg.bigPayload && fail == "" && tp.Bool("big_payload", 1, 60)
			if big {
				// several 64 KiB parser blocks, handled by the unmarshal workers in parallel
				base := GenSamples(tp, 40)
				samples = nil
				for len(samples) < 20000 {
					samples = append(samples, base...)
				}
				e.Probe("multi_block_payload_parallel")
			}
			spec := &sidecarsim.TargetSpec{Payload: Render(samples, tp.Bool("extras", 1, 3), false, false), Fail: fail, Gzip: tp.Bool("gzip", 1, 4)}
			if fail == "break" || fail == "timeout" {
				spec.FailOffset = tp.Choose("fail_offset", len(spec.Payload)+1)
				if spec.Gzip {
					spec.FailOffset = tp.Choose("fail_offset_gz", 10)
				}
			}
			n.Targets.Set(TargetHost(h), spec)
			at := time.Now()
			var rr *httptest.ResponseRecorder
			if big {
				sidecarsim.WithParserWorkers(8, func() { rr = n.ScrapeRec(h, job) })
			} else {
				rr = n.ScrapeRec(h, job)
			}
			total, kept, pm := Counts(samples, JobRelabel(job))
			e.Logf("op %d scrape %d via %s fail=%q samples=%d kept=%d -> %d", i, h, job, fail, total, kept, rr.Code)
			ops = append(ops, opRec{"scrape", fmt.Sprintf("%d via %s fail=%q samples=%d kept=%d", h, job, fail, total, kept)})
			m.Scrape(h, at, fail == "", total, kept, pm)
			if fail == "" {
				e.Probe("scrape_ok")
			} else {
				e.Fault("target_" + fail)
			}
			if !assigned {
				e.Probe("scrape_unassigned")
			}
			kinds["scrape"] = true
			check("scrape")
		case 2: // restart
			e.Logf("op %d restart", i)
			ops = append(ops, opRec{"restart", nil})
			restartAt := time.Now()
			if err := n.Restart(NodeConfig, fileMode); err != nil {
				if e.Property == "C10" {
					e.Violate("restart", "start-fails", "sidecar does not start after a clean restart: %v", err)
				} else {
					e.Undecided("restart failed: %v", err)
				}
				return
			}
			m.Restart(restartAt)
			// what is assigned now is what was persisted (an unacknowledged update is gone)
			cur = map[uint64]*target.Target{}
			curJob = map[uint64]string{}
			for h, p := range m.disk {
				cur[h] = MkTarget(h, p.job, p.state, p.series, p.total)
				curJob[h] = p.job
			}
			m.jobOf = map[uint64]string{}
			for h, p := range m.disk {
				m.jobOf[h] = p.job
			}
			e.Fault("sidecar_restart")
			kinds["restart"] = true
			check("restart")
		case 3: // advance the clock, change the Prometheus head
			d := time.Duration(1+tp.Choose("advance_s", 120)) * time.Second
			sched.Sleep(d)
			n.Head = int64(tp.Choose("prom_head", 6)) * 9
			e.Logf("op %d advance %s head=%d", i, d, n.Head)
			ops = append(ops, opRec{"advance", d.String()})
			if tp.Bool("prom_api_down_for_one_request", 1, 6) {
				// the sidecar's Prometheus does not answer its API for one runtimeinfo request: that request
				// fails; the next one, with Prometheus back, is answered properly again
				n.HeadErr = true
				_, herr := n.SC.GetRuntime()
				n.HeadErr = false
				e.Fault("prom_api_down")
				if herr == nil && e.Property == "C10" {
					e.Violate("runtime", "field=head,after=prometheus-api-down", "the sidecar's Prometheus API was down but runtimeinfo was answered as if nothing had happened")
				}
			}
			check("read")
		}
	}
	e.AddSim(time.Since(start))
	// coverage key: which operation kinds the history mixed and the final shape
	var ks []string
	for k := range kinds {
		ks = append(ks, k)
	}
	sort.Strings(ks)
	if len(ks) >= 2 {
		states := map[string]int{}
		for _, en := range m.entries {
			states[en.state+"/"+string(en.health)+"/"+tcls(en.times)]++
		}
		var ss []string
		for k := range states {
			ss = append(ss, k)
		}
		sort.Strings(ss)
		e.Key(strings.Join(ks, "+"), strings.Join(ss, ","), fmt.Sprintf("idle=%v", m.idleAt != nil))
	}
	return ops
}

func tcls(n uint64) string {
	switch {
	case n == 0:
		return "0"
	case n < 3:
		return "1-2"
	}
	return ">=3"
}

func checkSamples(e *core.Env, n *Node, m *Model, op string) {
	got, err := n.SC.GetSamples("", true)
	if err != nil {
		e.Undecided("GET samples failed: %v", err)
		return
	}
	// expected per job: only asserted when every target of the job has specified statistics
	type agg struct {
		kept int
		pm   map[string][2]int
		ok   bool
	}
	exp := map[string]*agg{}
	for h, en := range m.entries {
		job := m.jobOf[h]
		a := exp[job]
		if a == nil {
			a = &agg{pm: map[string][2]int{}, ok: true}
			exp[job] = a
		}
		if en.scraped && !en.lastOK {
			a.ok = false
			continue
		}
		if !en.scraped {
			continue
		}
		a.kept += en.kept
		for k, v := range en.perMetric {
			x := a.pm[k]
			x[0] += v[0]
			x[1] += v[1]
			a.pm[k] = x
		}
	}
	for job, a := range exp {
		if !a.ok {
			continue
		}
		g := got[job]
		if g == nil {
			e.Violate("samples", "missing-job", "after %s: /samples/ has no entry for job %s which has targets", op, job)
			continue
		}
		if int(g.ScrapedTotal) != a.kept {
			e.Violate("samples", "field=scrapedTotal", "after %s: /samples/ job %s scrapedTotal %v, expected %d", op, job, g.ScrapedTotal, a.kept)
		}
		sumT, sumS := 0, 0
		for k, v := range a.pm {
			gm := g.MetricsTotal[k]
			if gm == nil {
				if v[0] != 0 {
					e.Violate("samples", "field=metric-missing", "after %s: /samples/ job %s lacks metric %s (expected total %d)", op, job, k, v[0])
				}
				continue
			}
			if int(gm.Total) != v[0] || int(gm.Scraped) != v[1] {
				e.Violate("samples", "field=per-metric", "after %s: /samples/ job %s metric %s = (total %v, scraped %v), expected (%d, %d)", op, job, k, gm.Total, gm.Scraped, v[0], v[1])
			}
		}
		for _, gm := range g.MetricsTotal {
			sumT += int(gm.Total)
			sumS += int(gm.Scraped)
		}
		if sumS != int(g.ScrapedTotal) {
			e.Violate("samples", "field=sum", "after %s: /samples/ job %s per-metric scraped counts add up to %d, scrapedTotal is %v", op, job, sumS, g.ScrapedTotal)
		}
		_ = sumT
	}
}
