package node

import (
	"context"
	"fmt"
	"io"
	"net"
	"net/http"
	"net/url"
	"testing/synctest"
	"time"

	pscrape "github.com/prometheus/prometheus/scrape"

	"kvassverif/core"
	"kvassverif/sidecarsim"

	"tkestack.io/kvass/pkg/prom"
	"tkestack.io/kvass/pkg/shard"
	"tkestack.io/kvass/pkg/target"
)

// pipeListener serves net.Pipe connections: a real net/http server and client
// talk to each other inside the synctest bubble without sockets.
type pipeListener struct {
	ch     chan net.Conn
	closed chan struct{}
}

func newPipeListener() *pipeListener {
	return &pipeListener{ch: make(chan net.Conn), closed: make(chan struct{})}
}
func (l *pipeListener) Accept() (net.Conn, error) {
	select {
	case c := <-l.ch:
		return c, nil
	case <-l.closed:
		return nil, net.ErrClosed
	}
}
func (l *pipeListener) Close() error {
	select {
	case <-l.closed:
	default:
		close(l.closed)
	}
	return nil
}
func (l *pipeListener) Addr() net.Addr { return pipeAddr{} }
func (l *pipeListener) Dial(ctx context.Context) (net.Conn, error) {
	c1, c2 := net.Pipe()
	select {
	case l.ch <- c2:
		return c1, nil
	case <-l.closed:
		return nil, net.ErrClosed
	case <-ctx.Done():
		return nil, ctx.Err()
	}
}

type pipeAddr struct{}

func (pipeAddr) Network() string { return "pipe" }
func (pipeAddr) String() string  { return "pipe" }

// clientView is what a Prometheus-like HTTP client observed for one scrape.
type clientView struct {
	Err      string
	Status   int
	BodyLen  int
	BodyErr  string
	Complete bool // status 200 and body read to EOF without error
	Body     []byte
	CT       string
	CE       string
}

type promClient struct {
	l   *pipeListener
	srv *http.Server
	cli *http.Client
	tr  *http.Transport
}

func newPromClient(h http.Handler) *promClient {
	l := newPipeListener()
	srv := &http.Server{Handler: h}
	go func() { _ = srv.Serve(l) }()
	pu, _ := url.Parse(sidecarsim.ProxyURL)
	tr := &http.Transport{Proxy: http.ProxyURL(pu), DisableKeepAlives: true,
		DialContext: func(ctx context.Context, network, addr string) (net.Conn, error) { return l.Dial(ctx) }}
	return &promClient{l: l, srv: srv, tr: tr, cli: &http.Client{Transport: tr, Timeout: 15 * time.Second}}
}

func (p *promClient) Close() {
	p.tr.CloseIdleConnections()
	_ = p.srv.Close()
	_ = p.l.Close()
}

func (p *promClient) Get(u string) *clientView {
	v := &clientView{}
	req, _ := http.NewRequest("GET", u, nil)
	req.Header.Set("Accept-Encoding", "gzip")
	resp, err := p.cli.Do(req)
	if err != nil {
		v.Err = err.Error()
		return v
	}
	v.Status = resp.StatusCode
	v.CT = resp.Header.Get("Content-Type")
	v.CE = resp.Header.Get("Content-Encoding")
	b, err := io.ReadAll(resp.Body)
	_ = resp.Body.Close()
	v.Body = b
	v.BodyLen = len(b)
	if err != nil {
		v.BodyErr = err.Error()
	}
	v.Complete = v.Status == 200 && err == nil
	return v
}

func stageOf(fail string, off int) string {
	switch fail {
	case "connect", "status", "stopped":
		return fail
	case "timeout":
		if off == 0 {
			return "timeout:offset=0"
		}
		return "timeout:offset>0"
	case "break", "gzip_corrupt":
		if off == 0 {
			return fail + ":offset=0"
		}
		return fail + ":offset>0"
	}
	return fail
}

func c13Run(tp *core.Tape, e *core.Env) {
	var ops []string
	problem := sidecarsim.InBubble(e.T, func() { ops = c13Bubble(tp, e) })
	if problem != "" {
		e.Undecided("C13 node run: %s", problem)
	}
	if len(ops) > 30 {
		ops = ops[:30]
	}
	e.SetSample(map[string]interface{}{"scrapes": ops})
}

func c13Bubble(tp *core.Tape, e *core.Env) (ops []string) {
	start := time.Now()
	n, err := StartNode(e, "c13", tp.Bool("file_mode", 1, 3), NodeConfig)
	if err != nil {
		e.Undecided("cannot start sidecar: %v", err)
		return
	}
	defer n.Cleanup()
	pc := newPromClient(n.SC.Proxy)
	defer pc.Close()

	// assignment: 101 normal on j0, 102 in_transfer on j1, 103 normal on j2; 104.. unassigned
	req := map[string][]*target.Target{
		"j0": {MkTarget(101, "j0", "", 5, 5)},
		"j1": {MkTarget(102, "j1", "in_transfer", 5, 5)},
		"j2": {MkTarget(103, "j2", "", 5, 5)},
	}
	if err := n.SC.PostTargets(&shard.UpdateTargetsRequest{Targets: req}); err != nil {
		e.Undecided("POST targets: %v", err)
		return
	}
	jobOf := map[uint64]string{101: "j0", 102: "j1", 103: "j2"}
	counters := map[uint64]uint64{}

	avoidBody := e.AvoidKnown && e.Known.OpenTrigger("C13", "body_failure_after_first_byte")
	one := func(h uint64, job string, spec *sidecarsim.TargetSpec, stopped bool, label string) {
		n.Targets.Set(TargetHost(h), spec)
		fail := spec.Fail
		if stopped {
			fail = "stopped"
		}
		v := pc.Get(ScrapeURLFor(h, job))
		st, err := n.SC.GetStatus()
		if err != nil {
			e.Undecided("GET status: %v", err)
			return
		}
		_, assigned := jobOf[h]
		stage := stageOf(fail, spec.FailOffset)
		e.Logf("scrape %d via %s %s gzip=%v off=%d payload=%d -> err=%q status=%d body=%d bodyErr=%q", h, job, stage, spec.Gzip, spec.FailOffset, len(spec.Payload), v.Err, v.Status, v.BodyLen, v.BodyErr)
		ops = append(ops, fmt.Sprintf("%s target=%d job=%s stage=%q gzip=%v -> status=%d complete=%v", label, h, job, stage, spec.Gzip, v.Status, v.Complete))
		asg := "assigned"
		if !assigned {
			asg = "unassigned"
		}
		e.Key(stage, asg, fmt.Sprintf("gzip=%v", spec.Gzip))
		if fail != "" {
			e.Fault("target_" + fail)
			if v.Complete {
				e.Violate("complete-200-on-failure", "stage="+stage,
					"real scrape failed (%s at offset %d of %d payload bytes, gzip=%v) but the Prometheus-side client got a complete 200 response with %d body bytes", fail, spec.FailOffset, len(spec.Payload), spec.Gzip, v.BodyLen)
			}
		} else {
			e.Probe("scrape_ok")
			if !v.Complete {
				e.Violate("success-not-delivered", "", "real scrape succeeded but the client saw err=%q status=%d bodyErr=%q", v.Err, v.Status, v.BodyErr)
			}
		}
		if assigned {
			counters[h]++
			g := st[h]
			if g == nil {
				e.Violate("status-entry-lost", "", "assigned target %d has no status entry after a scrape", h)
				return
			}
			if g.ScrapeTimes != counters[h] {
				e.Violate("counter", "stage="+stageOrOK(stage), "target %d: scrape counter %d after %d scrape attempts", h, g.ScrapeTimes, counters[h])
				counters[h] = g.ScrapeTimes
			}
			if fail != "" {
				if g.Health != pscrape.HealthBad || g.LastError == "" {
					e.Violate("health-not-down", "stage="+stage, "target %d: scrape failed (%s) but status shows health %q, last error %q", h, fail, g.Health, g.LastError)
				}
			} else if g.Health != pscrape.HealthGood || g.LastError != "" {
				e.Violate("health-not-up", "", "target %d: scrape succeeded but status shows health %q, last error %q", h, g.Health, g.LastError)
			}
		} else if len(st) != len(jobOf) {
			e.Violate("status-entry-created", "", "scraping unassigned target %d changed the status map: %d entries", h, len(st))
		}
	}

	payloadFor := func() ([]byte, bool) {
		ns := 1 + tp.Weighted("n_samples", 3, 3, 2, 1, 1)
		if ns == 5 {
			ns = 300
		}
		return Render(GenSamples(tp, ns), tp.Bool("extras", 1, 3), false, tp.Bool("no_trailing_nl", 1, 6)), tp.Bool("gzip", 1, 3)
	}
	pickTarget := func() (uint64, string) {
		h := core.Pick(tp, "target", uint64(101), 102, 103, 104)
		job := jobOf[h]
		if job == "" {
			job = Jobs[tp.Choose("job", len(Jobs))]
		}
		return h, job
	}

	nScr := tp.Range("n_scrapes", 2, 10)
	for i := 0; i < nScr && !e.Failed(); i++ {
		h, job := pickTarget()
		payload, gz := payloadFor()
		switch tp.Weighted("kind", 3, 2, 2, 2, 3, 2, 1, 1, 2, 2, 1) {
		case 10: // a target first assigned by an update whose Prometheus reload failed is scraped
			nh := uint64(105)
			if _, had := jobOf[nh]; had {
				continue
			}
			req2 := map[string][]*target.Target{}
			for j, ts := range req {
				req2[j] = append(req2[j], ts...)
			}
			req2["j0"] = append(req2["j0"], MkTarget(nh, "j0", "", 5, 5))
			n.SC.ReloadErr = fmt.Errorf("prometheus reload failed (injected)")
			perr := n.SC.PostTargets(&shard.UpdateTargetsRequest{Targets: req2})
			n.SC.ReloadErr = nil
			e.Fault("prom_reload_fails")
			st0, _ := n.SC.GetStatus()
			if st0[nh] == nil {
				// the refused update did not take: nothing to scrape
				continue
			}
			// the sidecar reports the target as assigned (the coordinator will not send it again): its
			// scrapes count and its health is truthful like any other assigned target's
			req, jobOf[nh] = req2, "j0"
			e.Probe("target_assigned_by_refused_update")
			_ = perr
			failing := tp.Bool("new_target_fails", 1, 2)
			spec := &sidecarsim.TargetSpec{Payload: payload, Gzip: gz}
			if failing {
				spec.Fail, spec.Status = "status", 503
			}
			one(nh, "j0", spec, false, "after-refused-update")
		case 9: // the administrative stop is lifted or imposed while the scrape is in flight
			if _, assigned := jobOf[h]; !assigned || len(payload) == 0 {
				continue
			}
			startsStopped := tp.Bool("starts_stopped", 2, 3)
			stop, free := &prom.ExtraConfig{StopScrapeReason: "stopped by admin"}, &prom.ExtraConfig{}
			first, then := free, stop
			if startsStopped {
				first, then = stop, free
			}
			if err := n.SC.PushExtra(first); err != nil {
				e.Undecided("push extra: %v", err)
				return
			}
			n.Targets.Set(TargetHost(h), &sidecarsim.TargetSpec{Payload: payload, Gzip: gz})
			hold := n.Targets.HoldNext(TargetHost(h))
			var v *clientView
			done := make(chan struct{})
			go func() { defer close(done); v = pc.Get(ScrapeURLFor(h, job)) }()
			synctest.Wait()
			err := n.SC.PushExtra(then)
			close(hold)
			<-done
			if err != nil {
				e.Undecided("push extra: %v", err)
				return
			}
			if err := n.SC.PushExtra(free); err != nil {
				e.Undecided("push extra: %v", err)
				return
			}
			st, _ := n.SC.GetStatus()
			counters[h]++
			e.Probe("stop_changed_during_scrape")
			e.Key("stop-changed-in-flight", fmt.Sprintf("starts-stopped=%v", startsStopped))
			ops = append(ops, fmt.Sprintf("stop-change target=%d starts-stopped=%v -> status=%d complete=%v body=%d", h, startsStopped, v.Status, v.Complete, v.BodyLen))
			e.Logf("scrape %d in flight while the stop reason changes (starts stopped=%v) -> %d complete=%v body=%d of %d", h, startsStopped, v.Status, v.Complete, v.BodyLen, len(payload))
			g := st[h]
			if g == nil {
				e.Violate("status-entry-lost", "", "target %d lost its status entry", h)
				return
			}
			if g.ScrapeTimes != counters[h] {
				e.Violate("counter", "stage=stop-changed-in-flight", "target %d: scrape counter %d after %d scrape attempts", h, g.ScrapeTimes, counters[h])
				counters[h] = g.ScrapeTimes
			}
			// whichever of the two settings the proxy goes by, the scrape is one thing for everybody:
			// either it failed (no complete 200 for Prometheus, health down with an error) or it
			// succeeded (Prometheus has the target's body, health up)
			switch {
			case v.Complete && v.BodyLen != len(payload):
				e.Violate("complete-200-without-the-body", "stage=stop-changed-in-flight", "the stop reason changed while the scrape was in flight (starts stopped=%v): Prometheus got a complete 200 with %d body bytes, the target served %d", startsStopped, v.BodyLen, len(payload))
			case v.Complete && (g.Health != pscrape.HealthGood || g.LastError != ""):
				e.Violate("health-not-up", "stage=stop-changed-in-flight", "Prometheus got the complete body but the status shows health %q, error %q", g.Health, g.LastError)
			case !v.Complete && (g.Health != pscrape.HealthBad || g.LastError == ""):
				e.Violate("health-not-down", "stage=stop-changed-in-flight", "the scrape failed for Prometheus (status %d) but the status shows health %q, error %q", v.Status, g.Health, g.LastError)
			}
		case 8: // the scrape is in flight while the coordinator updates the targets (keeping this one)
			if _, assigned := jobOf[h]; !assigned {
				continue
			}
			failing := tp.Bool("overlap_fails", 2, 3)
			spec := &sidecarsim.TargetSpec{Payload: payload, Gzip: gz}
			if failing {
				spec.Fail, spec.Status = "status", 500
			}
			n.Targets.Set(TargetHost(h), spec)
			hold := n.Targets.HoldNext(TargetHost(h))
			var v *clientView
			done := make(chan struct{})
			go func() { defer close(done); v = pc.Get(ScrapeURLFor(h, job)) }()
			synctest.Wait()
			if err := n.SC.PostTargets(&shard.UpdateTargetsRequest{Targets: req}); err != nil {
				e.Undecided("POST targets: %v", err)
				close(hold)
				<-done
				return
			}
			close(hold)
			<-done
			st, _ := n.SC.GetStatus()
			counters[h]++
			e.Probe("scrape_overlapped_update")
			e.Key("overlapping-update", fmt.Sprintf("fails=%v", failing))
			ops = append(ops, fmt.Sprintf("overlap target=%d fails=%v -> status=%d", h, failing, v.Status))
			e.Logf("scrape %d in flight during a target update, fails=%v -> %d", h, failing, v.Status)
			g := st[h]
			if g == nil {
				e.Violate("status-entry-lost", "", "target %d lost its status entry", h)
				return
			}
			if g.ScrapeTimes != counters[h] {
				e.Violate("counter", "stage=overlapping-update", "target %d: a scrape that was in flight while the targets were updated is not counted (%d, expected %d)", h, g.ScrapeTimes, counters[h])
				counters[h] = g.ScrapeTimes
			}
			if failing && (g.Health != pscrape.HealthBad || g.LastError == "") {
				e.Violate("health-not-down", "stage=overlapping-update", "target %d: a scrape in flight during a target update failed (HTTP 500) but the status shows health %q, error %q", h, g.Health, g.LastError)
			}
			if !failing && g.Health != pscrape.HealthGood {
				e.Violate("health-not-up", "stage=overlapping-update", "target %d: a scrape in flight during a target update succeeded but the status shows health %q", h, g.Health)
			}
			if failing && v.Complete {
				e.Violate("complete-200-on-failure", "stage=overlapping-update", "failed scrape delivered as a complete 200")
			}
		case 0:
			one(h, job, &sidecarsim.TargetSpec{Payload: payload, Gzip: gz, Chunks: []int{1 + tp.Choose("chunk", 64)}}, false, "ok")
		case 1:
			one(h, job, &sidecarsim.TargetSpec{Payload: payload, Fail: "connect"}, false, "fault")
		case 2:
			one(h, job, &sidecarsim.TargetSpec{Payload: payload, Fail: "status", Status: core.Pick(tp, "code", 500, 404, 503, 204, 301)}, false, "fault")
		case 3:
			off := 0
			if !avoidBody {
				off = tp.Choose("timeout_offset", len(payload)+1)
			}
			one(h, job, &sidecarsim.TargetSpec{Payload: payload, Fail: "timeout", FailOffset: off}, false, "fault")
		case 4:
			wire := len(payload)
			if gz {
				wire = len(sidecarsim.Gzip(payload))
			}
			off := 0
			if !avoidBody {
				off = tp.Choose("break_offset", wire+1)
			}
			if off == wire && wire > 0 {
				off = wire - 1 // breaking after the last byte is not a failure
			}
			if wire == 0 {
				continue
			}
			spec := &sidecarsim.TargetSpec{Payload: payload, Gzip: gz, Fail: "break", FailOffset: off, Chunks: []int{1 + tp.Choose("chunk", 64)}}
			if tp.Bool("break_is_reset", 1, 3) {
				// the target's connection is reset (RST) rather than closed early
				spec.Reset = true
				e.Probe("break_by_connection_reset")
			}
			if tp.Bool("break_only_once", 1, 2) {
				// the connection breaks once (target restarting, stale keep-alive); a second request would
				// be answered properly: the scrape Prometheus asked for has failed all the same
				spec.FailFirst = 1
				e.Probe("break_then_target_fine")
			}
			one(h, job, spec, false, "fault")
		case 5:
			if avoidBody {
				continue
			}
			wire := len(sidecarsim.Gzip(payload))
			one(h, job, &sidecarsim.TargetSpec{Payload: payload, Gzip: true, Fail: "gzip_corrupt", FailOffset: tp.Choose("corrupt_offset", wire)}, false, "fault")
		case 6: // administratively stopped
			if err := n.SC.PushExtra(&prom.ExtraConfig{StopScrapeReason: "stopped by admin"}); err != nil {
				e.Undecided("push extra: %v", err)
				return
			}
			one(h, job, &sidecarsim.TargetSpec{Payload: payload, Gzip: gz}, true, "fault")
			if err := n.SC.PushExtra(&prom.ExtraConfig{}); err != nil {
				e.Undecided("push extra: %v", err)
				return
			}
		case 7: // small payload: every break offset (complete sweep of this sub-space)
			if avoidBody {
				continue
			}
			small := Render(GenSamples(tp, 2), false, false, false)
			for off := 0; off < len(small) && !e.Failed(); off++ {
				one(h, job, &sidecarsim.TargetSpec{Payload: small, Fail: "break", FailOffset: off}, false, "sweep")
			}
			e.ExhaustiveSweep()
		}
	}
	// requests rejected before the scrape stage change nothing
	before, _ := n.SC.GetStatus()
	v := pc.Get(sidecarsim.ScrapeURL("nojob", 101, "http", &url.URL{Scheme: "http", Host: TargetHost(101), Path: "/metrics"}))
	v2 := pc.Get("http://" + TargetHost(101) + "/metrics?_jobName=j0&_hash=notanumber&_scheme=http")
	after, _ := n.SC.GetStatus()
	if v.Complete || v2.Complete {
		e.Violate("rejected-request-200", "", "a request with an unknown job or unparsable hash got a complete 200")
	}
	for h, b := range before {
		if a := after[h]; a == nil || a.ScrapeTimes != b.ScrapeTimes {
			e.Violate("rejected-request-counted", "", "a request rejected before the scrape stage changed target %d's counter", h)
		}
	}
	e.AddSim(time.Since(start))
	return ops
}

func stageOrOK(s string) string {
	if s == "" {
		return "ok"
	}
	return s
}
