package node

import (
	"fmt"
	"math"
	"net/http/httptest"
	"net/url"
	"os"
	"path/filepath"
	"sort"
	"strings"
	"time"

	"github.com/prometheus/common/model"
	"github.com/prometheus/prometheus/model/labels"
	"github.com/prometheus/prometheus/model/relabel"
	pscrape "github.com/prometheus/prometheus/scrape"

	"kvassverif/core"
	"kvassverif/sidecarsim"

	"tkestack.io/kvass/pkg/shard"
	"tkestack.io/kvass/pkg/target"
)

const NodeConfig = `global:
  scrape_interval: 15s
  scrape_timeout: 10s
scrape_configs:
- job_name: j0
  static_configs:
  - targets: ['unused:1']
- job_name: j1
  metric_relabel_configs:
  - source_labels: [__name__]
    regex: drop_.*
    action: drop
  static_configs:
  - targets: ['unused:1']
- job_name: j2
  metric_relabel_configs:
  - source_labels: [code]
    regex: "200"
    target_label: keep
    replacement: "no"
    action: replace
  - source_labels: [keep]
    regex: "no"
    action: drop
  - regex: drop_label
    action: labeldrop
  static_configs:
  - targets: ['unused:1']
`

var Jobs = []string{"j0", "j1", "j2"}

func mustRegex(s string) relabel.Regexp { return relabel.MustNewRegexp(s) }

// JobRelabel mirrors NodeConfig's metric_relabel_configs as data for the oracle.
func JobRelabel(job string) []*relabel.Config {
	switch job {
	case "j1":
		return []*relabel.Config{{SourceLabels: []model.LabelName{"__name__"}, Regex: mustRegex("drop_.*"), Action: relabel.Drop, Separator: ";", Replacement: "$1"}}
	case "j2":
		return []*relabel.Config{
			// a rewriting rule feeding the drop rule after it: a sample with code="200" is dropped as well
			{SourceLabels: []model.LabelName{"code"}, Regex: mustRegex("200"), TargetLabel: "keep", Replacement: "no", Action: relabel.Replace, Separator: ";"},
			{SourceLabels: []model.LabelName{"keep"}, Regex: mustRegex("no"), Action: relabel.Drop, Separator: ";", Replacement: "$1"},
			{Regex: mustRegex("drop_label"), Action: relabel.LabelDrop, Separator: ";", Replacement: "$1"},
		}
	}
	return nil
}

type entry struct {
	state      string
	times      uint64
	health     pscrape.TargetHealth
	series     int64
	total      int64
	window     []int64
	errSet     bool
	lastScrape time.Time
	lastOK     bool // last scrape succeeded (statistics are specified)
	scraped    bool // scraped at least once since (re)creation
	perMetric  map[string][2]int
	kept       int
}

type persisted struct {
	job           string
	state         string
	series, total int64
}

// Model is the reference model of the sidecar's bookkeeping (C10, C13, C14).
type Model struct {
	entries  map[uint64]*entry
	jobOf    map[uint64]string
	idleAt   *time.Time
	disk     map[uint64]persisted
	diskIdle *time.Time // idle-since as persisted by the last acknowledged update
}

func NewModel(now time.Time) *Model {
	t := now
	t2 := now
	return &Model{entries: map[uint64]*entry{}, jobOf: map[uint64]string{}, idleAt: &t, disk: map[uint64]persisted{}, diskIdle: &t2}
}

func (m *Model) Update(req map[string][]*target.Target, now time.Time) {
	ne := map[uint64]*entry{}
	nj := map[uint64]string{}
	nd := map[uint64]persisted{}
	for job, ts := range req {
		for _, t := range ts {
			old := m.entries[t.Hash]
			if old == nil {
				old = &entry{health: pscrape.HealthUnknown, series: t.Series, total: t.TotalSeries}
			} else if old.state == "" && t.TargetState == "in_transfer" {
				old.times = 0
			}
			old.state = t.TargetState
			ne[t.Hash] = old
			nj[t.Hash] = job
			nd[t.Hash] = persisted{job, t.TargetState, t.Series, t.TotalSeries}
		}
	}
	m.entries, m.jobOf, m.disk = ne, nj, nd
	if len(ne) == 0 && m.idleAt == nil {
		t := now
		m.idleAt = &t
	}
	if len(ne) != 0 {
		m.idleAt = nil
	}
	m.diskIdle = nil
	if m.idleAt != nil {
		t := *m.idleAt
		m.diskIdle = &t
	}
}

// UpdateMemoryOnly: an update that took effect in memory but was not persisted
// (its acknowledgement failed after the in-memory switch).
func (m *Model) UpdateMemoryOnly(req map[string][]*target.Target, now time.Time) {
	disk, di := m.disk, m.diskIdle
	m.Update(req, now)
	m.disk, m.diskIdle = disk, di
}

// Restart resumes what was persisted; now is the start time of the new process.
func (m *Model) Restart(now time.Time) {
	ne := map[uint64]*entry{}
	for h, p := range m.disk {
		ne[h] = &entry{state: p.state, health: pscrape.HealthUnknown, series: p.series, total: p.total}
	}
	m.entries = ne
	m.idleAt = nil
	if m.diskIdle != nil {
		t := *m.diskIdle
		m.idleAt = &t
	}
	if len(ne) == 0 && m.idleAt == nil {
		t := now
		m.idleAt = &t
	}
	if len(ne) != 0 {
		m.idleAt = nil
	}
}

// Scrape records one scrape attempt that reached the scrape stage.
func (m *Model) Scrape(h uint64, at time.Time, ok bool, total, kept int, pm map[string][2]int) {
	e := m.entries[h]
	if e == nil {
		return
	}
	e.times++
	e.lastScrape = at
	e.scraped = true
	if !ok {
		e.health = pscrape.HealthBad
		e.errSet = true
		e.lastOK = false
		return
	}
	e.health = pscrape.HealthGood
	e.errSet = false
	e.lastOK = true
	e.window = append(e.window, int64(kept))
	if len(e.window) > 3 {
		e.window = e.window[len(e.window)-3:]
	}
	var s int64
	for _, x := range e.window {
		s += x
	}
	e.series = int64(math.Floor(float64(s) / float64(len(e.window))))
	e.total = int64(total)
	e.kept = kept
	e.perMetric = pm
}

type mismatch struct{ field, msg string }

// CompareStatus compares the real status map with the model.
func (m *Model) CompareStatus(got map[uint64]*target.ScrapeStatus) []mismatch {
	var out []mismatch
	for _, h := range sidecarsim.SortedHashes(got) {
		if m.entries[h] == nil {
			out = append(out, mismatch{"entries", fmt.Sprintf("status has an entry for %d which is not assigned", h)})
		}
	}
	hs := make([]uint64, 0, len(m.entries))
	for h := range m.entries {
		hs = append(hs, h)
	}
	sort.Slice(hs, func(a, b int) bool { return hs[a] < hs[b] })
	for _, h := range hs {
		e, g := m.entries[h], got[h]
		if g == nil {
			out = append(out, mismatch{"entries", fmt.Sprintf("assigned target %d has no status entry", h)})
			continue
		}
		if g.TargetState != e.state {
			out = append(out, mismatch{"state", fmt.Sprintf("target %d: state %q, expected %q", h, g.TargetState, e.state)})
		}
		if g.ScrapeTimes != e.times {
			out = append(out, mismatch{"times", fmt.Sprintf("target %d: scrape counter %d, expected %d", h, g.ScrapeTimes, e.times)})
		}
		if g.Health != e.health {
			out = append(out, mismatch{"health", fmt.Sprintf("target %d: health %q, expected %q", h, g.Health, e.health)})
		}
		if (g.LastError != "") != e.errSet {
			out = append(out, mismatch{"lasterror", fmt.Sprintf("target %d: last error %q, expected set=%v", h, g.LastError, e.errSet)})
		}
		if g.Series != e.series {
			out = append(out, mismatch{"series", fmt.Sprintf("target %d: series %d, expected %d (window %v)", h, g.Series, e.series, e.window)})
		}
		if g.TotalSeries != e.total {
			out = append(out, mismatch{"total", fmt.Sprintf("target %d: total series %d, expected %d", h, g.TotalSeries, e.total)})
		}
		if e.scraped && !g.LastScrape.Equal(e.lastScrape) {
			out = append(out, mismatch{"lastscrape", fmt.Sprintf("target %d: last scrape %s, expected %s", h, g.LastScrape, e.lastScrape)})
		}
	}
	return out
}

func (m *Model) CompareRuntime(rt *shard.RuntimeInfo, promHead int64) []mismatch {
	var out []mismatch
	var ss, st int64
	for _, e := range m.entries {
		ss += e.series
		st += e.total
	}
	if (rt.IdleStartAt == nil) != (m.idleAt == nil) || (rt.IdleStartAt != nil && !rt.IdleStartAt.Equal(*m.idleAt)) {
		out = append(out, mismatch{"idle", fmt.Sprintf("idle since %v, expected %v", rt.IdleStartAt, m.idleAt)})
	}
	if rt.ProcessSeries != st {
		out = append(out, mismatch{"process", fmt.Sprintf("process series %d, expected sum of totals %d", rt.ProcessSeries, st)})
	}
	exp := promHead
	if ss > exp {
		exp = ss
	}
	if rt.HeadSeries != exp {
		out = append(out, mismatch{"head", fmt.Sprintf("head series %d, expected max(prometheus head %d, sum of series %d)", rt.HeadSeries, promHead, ss)})
	}
	return out
}

// ---- node under test -----------------------------------------------------------

type Node struct {
	SC      *sidecarsim.Sidecar
	Targets *sidecarsim.Targets
	Dir     string
	Head    int64
	HeadErr bool
}

func TargetHost(h uint64) string { return fmt.Sprintf("t%d:9100", h) }

func MkTarget(h uint64, job, state string, series, total int64) *target.Target {
	return &target.Target{Hash: h, Series: series, TotalSeries: total, TargetState: state,
		Labels: labels.Labels{{Name: "__address__", Value: TargetHost(h)}, {Name: "__metrics_path__", Value: "/metrics"},
			{Name: "__scheme__", Value: "http"}, {Name: "instance", Value: TargetHost(h)}, {Name: "job", Value: job}}}
}

func ScrapeURLFor(h uint64, job string) string {
	return sidecarsim.ScrapeURL(job, h, "http", &url.URL{Scheme: "http", Host: TargetHost(h), Path: "/metrics"})
}

// StartNode creates the directory and starts a sidecar in push or file mode with NodeConfig.
func StartNode(e *core.Env, name string, fileMode bool, cfg string) (*Node, error) {
	dir := filepath.Join(e.Scratch, fmt.Sprintf("%s-%d", name, e.RunIndex))
	_ = os.RemoveAll(dir)
	if err := os.MkdirAll(dir, 0o755); err != nil {
		return nil, err
	}
	n := &Node{Dir: dir, Targets: sidecarsim.NewTargets()}
	opt := sidecarsim.Options{Dir: dir, Targets: n.Targets}
	if fileMode {
		opt.ConfigFile = filepath.Join(dir, "prometheus.env.yaml")
		if err := os.WriteFile(opt.ConfigFile, []byte(cfg), 0o644); err != nil {
			return nil, err
		}
	}
	n.SC = sidecarsim.Start(opt)
	n.SC.HeadSeries = n.head
	if n.SC.LoadErr != nil {
		return n, n.SC.LoadErr
	}
	if !fileMode {
		if err := n.SC.PushConfig(cfg); err != nil {
			return n, err
		}
	}
	return n, nil
}

func (n *Node) head() (int64, error) {
	if n.HeadErr {
		return 0, fmt.Errorf("prometheus api down")
	}
	return n.Head, nil
}

func (n *Node) Restart(cfg string, fileMode bool) error {
	n.SC = n.SC.Restart()
	n.SC.HeadSeries = n.head
	if n.SC.LoadErr != nil {
		return n.SC.LoadErr
	}
	if !fileMode {
		// push-mode sidecars get their configuration again from the coordinator
		return n.SC.PushConfig(cfg)
	}
	return nil
}

func (n *Node) Cleanup() { _ = os.RemoveAll(n.Dir) }

func (n *Node) ScrapeRec(h uint64, job string) *httptest.ResponseRecorder {
	rr := httptest.NewRecorder()
	n.SC.Scrape(rr, ScrapeURLFor(h, job))
	return rr
}

var _ = strings.TrimSpace
