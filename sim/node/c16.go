package node

import (
	"flag"
	"fmt"
	"os"
	"os/exec"
	"path/filepath"
	"regexp"
	"strings"

	"github.com/go-kit/log"
	"github.com/prometheus/prometheus/config"

	"kvassverif/cfggen"
	"kvassverif/core"
	"kvassverif/sidecarsim"

	"tkestack.io/kvass/pkg/prom"
	"tkestack.io/kvass/pkg/shard"
	"tkestack.io/kvass/pkg/target"
)

func hashOf(text string) (string, error) {
	m := prom.NewConfigManager()
	if err := m.ReloadFromRaw([]byte(text)); err != nil {
		return "", err
	}
	return m.ConfigInfo().ConfigHash, nil
}

func hashChild(args []string) int {
	fs := flag.NewFlagSet("hashchild", flag.ContinueOnError)
	file := fs.String("file", "", "")
	if fs.Parse(args) != nil {
		return 2
	}
	b, err := os.ReadFile(*file)
	if err != nil {
		return 2
	}
	h, err := hashOf(string(b))
	if err != nil {
		fmt.Println("ERR", err)
		return 3
	}
	fmt.Println("HASH", h)
	return 0
}

func init() { core.RegisterCommand("hashchild", hashChild) }

var idxRe = regexp.MustCompile(`\[\]`)

// fieldClass turns a leaf path into a categorical field name.
func fieldClass(p string) string { return strings.TrimPrefix(p, ".") }

// c16RefusedPush: a configuration push that a component of the sidecar refuses (its Prometheus does not
// reload). Whatever hash the sidecar reports afterwards - that is what the coordinator judges "in sync" on -
// must be the hash of the configuration its proxy really works with (seen through a job's metric relabel
// rule, which differs between the two configurations).
func c16RefusedPush(tp *core.Tape, e *core.Env) {
	n, err := StartNode(e, "c16r", false, NodeConfig)
	if err != nil {
		e.Undecided("cannot start sidecar: %v", err)
		return
	}
	defer n.Cleanup()
	if err := n.SC.PostTargets(&shard.UpdateTargetsRequest{Targets: map[string][]*target.Target{"j0": {MkTarget(101, "j0", "", 5, 5)}}}); err != nil {
		e.Undecided("POST targets: %v", err)
		return
	}
	cfgB := strings.Replace(NodeConfig, "- job_name: j0\n", "- job_name: j0\n  metric_relabel_configs:\n  - source_labels: [__name__]\n    regex: drop_.*\n    action: drop\n", 1)
	hA, _ := hashOf(NodeConfig)
	hB, errB := hashOf(cfgB)
	if errB != nil || hA == hB {
		e.Undecided("the two configurations do not differ: %v", errB)
		return
	}
	refused := tp.Bool("push_is_refused", 3, 4)
	if refused {
		n.SC.ReloadErr = fmt.Errorf("prometheus reload failed (injected)")
	}
	perr := n.SC.PushConfig(cfgB)
	n.SC.ReloadErr = nil
	if refused {
		e.Fault("prom_reload_fails")
	}
	rt, err := n.SC.GetRuntime()
	if err != nil {
		e.Undecided("runtimeinfo: %v", err)
		return
	}
	n.Targets.Set(TargetHost(101), &sidecarsim.TargetSpec{Payload: []byte("drop_x 1\ndrop_z 1\nkeep_y 1\n")})
	n.ScrapeRec(101, "j0")
	st, err := n.SC.GetStatus()
	if err != nil || st[101] == nil {
		e.Undecided("status after the scrape: %v", err)
		return
	}
	runs := "neither"
	switch st[101].Series {
	case 3:
		runs = "A"
	case 1:
		runs = "B"
	}
	reports := "neither"
	switch rt.ConfigHash {
	case hA:
		reports = "A"
	case hB:
		reports = "B"
	}
	e.Probe("refused_push_hash_vs_behaviour")
	e.Key("refused-push", fmt.Sprintf("refused=%v", perr != nil), "reports="+reports)
	if reports != runs {
		e.Violate("reports-hash-of-a-configuration-it-does-not-run", fmt.Sprintf("push-refused=%v", perr != nil),
			"after pushing configuration B (refused: %v) the sidecar reports the hash of %s but its proxy applies the metric relabel rules of %s (kept %d of 3 samples)", perr != nil, reports, runs, st[101].Series)
	}
}

func c16Run(tp *core.Tape, e *core.Env) {
	if tp.Bool("refused_push_scenario", 1, 6) {
		if problem := sidecarsim.InBubble(e.T, func() { c16RefusedPush(tp, e) }); problem != "" {
			e.Undecided("node engine (C16): %s", problem)
		}
		return
	}
	dir := filepath.Join(e.Scratch, fmt.Sprintf("c16-%d", e.RunIndex))
	_ = os.RemoveAll(dir)
	_ = os.MkdirAll(dir, 0o755)
	defer os.RemoveAll(dir)
	avoidRegex := e.AvoidKnown && e.Known.OpenTrigger("C16", "regex_only_edit")
	tree, jobs := cfggen.Config(tp, cfggen.Opts{SDKinds: true})
	stA := cfggen.DrawStyle(tp)
	textA := cfggen.Render(tree, stA)
	sample := map[string]interface{}{"jobs": jobs, "bytes": len(textA)}
	defer e.SetSample(sample)
	hA, err := hashOf(textA)
	if err != nil {
		e.Undecided("generated config rejected: %v\n%s", err, textA)
		return
	}
	if hA == "" {
		e.Violate("empty-hash", "", "an accepted configuration has an empty hash")
	}
	// same text, another manager instance ("coordinator" and "sidecar") and another process
	if h2, _ := hashOf(textA); h2 != hA {
		e.Violate("unstable", "same-process", "the same text hashed twice in one process: %s then %s", hA, h2)
	}
	if tp.Bool("child_process", 1, 3) {
		f := filepath.Join(dir, "cfg.yaml")
		_ = os.WriteFile(f, []byte(textA), 0o644)
		cmd := exec.Command(core.Self(), "hashchild", "-file", f)
		cmd.Env = append(os.Environ(), "GOMAXPROCS=1")
		out, _ := cmd.CombinedOutput()
		got := strings.TrimSpace(strings.TrimPrefix(strings.TrimSpace(lastLine(string(out))), "HASH"))
		e.Probe("child_process_hash")
		if got != hA {
			e.Violate("cross-process", "", "another process computes hash %q for the same text, this process %q", got, hA)
		}
	}
	// a manager with a past computes the same hash for the same content: another configuration loaded
	// before, a stop-scrape reason in force (extra configuration is not configuration content), a
	// rejected reload in between
	if tp.Bool("manager_with_history", 1, 2) {
		m := prom.NewConfigManager()
		var past []string
		if tp.Bool("past_other_config", 1, 2) {
			_ = m.ReloadFromRaw([]byte("global:\n  scrape_interval: 33s\nscrape_configs:\n- job_name: earlier\n  static_configs:\n  - targets: [\"a:1\"]\n"))
			past = append(past, "other-config")
		}
		if tp.Bool("past_extra_config", 1, 2) {
			_ = m.UpdateExtraConfig(prom.ExtraConfig{StopScrapeReason: "maintenance"})
			past = append(past, "extra-config")
		}
		if tp.Bool("past_rejected_reload", 1, 3) {
			_ = m.ReloadFromRaw([]byte("scrape_configs: [ {job_name: 1, nonsense: true} ]"))
			past = append(past, "rejected-reload")
		}
		if err := m.ReloadFromRaw([]byte(textA)); err != nil {
			e.Undecided("manager with a past rejects the configuration: %v", err)
			return
		}
		e.Probe("manager_with_history")
		if tp.Bool("then_reload_whose_callback_fails", 1, 3) {
			// a later reload of other content that a component refuses (Prometheus does not reload, the
			// injected file cannot be written): whatever the manager then holds, the hash it publishes
			// must be the hash of the content it publishes - that pair is what "in sync" is judged on
			fail := false
			m.AddReloadCallbacks(func(*prom.ConfigInfo) error {
				if fail {
					return fmt.Errorf("component refuses the configuration (injected)")
				}
				return nil
			})
			fail = true
			other := "global:\n  scrape_interval: 44s\nscrape_configs:\n- job_name: later\n  static_configs:\n  - targets: [\"b:2\"]\n"
			if err := m.ReloadFromRaw([]byte(other)); err == nil {
				e.Undecided("the failing callback did not fail the reload")
				return
			}
			ci := m.ConfigInfo()
			want, herr := hashOf(string(ci.RawContent))
			e.Probe("reload_with_failing_callback")
			if herr == nil && ci.ConfigHash != want {
				e.Violate("hash-not-of-held-content", "after=refused-reload", "after a reload that a callback refused, the manager publishes content that hashes to %q together with hash %q", want, ci.ConfigHash)
			}
			return
		}
		if h := m.ConfigInfo().ConfigHash; h != hA {
			e.Violate("depends-on-history", "past="+strings.Join(past, "+"), "a manager that went through %v computes hash %q for content a fresh manager hashes as %q", past, h, hA)
		}
	}
	// where the text came from is not configuration content: the coordinator reads a file
	// (--config.file, in whatever directory it is mounted), a push-mode sidecar receives the same
	// text over its API; a manager that read a file earlier may receive text later
	if tp.Bool("loaded_from_file", 1, 2) {
		sub := filepath.Join(dir, core.Pick(tp, "config_dir", "etc", "mnt/a", "mnt/b/c"))
		_ = os.MkdirAll(sub, 0o755)
		f := filepath.Join(sub, "prometheus.yml")
		_ = os.WriteFile(f, []byte(textA), 0o644)
		m := prom.NewConfigManager()
		if err := m.ReloadFromFile(f); err != nil {
			e.Undecided("a manager reading the configuration from a file rejects it: %v", err)
			return
		}
		e.Probe("loaded_from_file")
		if h := m.ConfigInfo().ConfigHash; h != hA {
			e.Violate("depends-on-source", "source=file", "the text read from a file hashes to %q, the same text received as such to %q", h, hA)
		}
		if tp.Bool("then_received_raw", 1, 2) {
			_ = m.ReloadFromRaw([]byte("global:\n  scrape_interval: 33s\nscrape_configs:\n- job_name: earlier\n  static_configs:\n  - targets: [\"a:1\"]\n"))
			if err := m.ReloadFromRaw([]byte(textA)); err == nil {
				if h := m.ConfigInfo().ConfigHash; h != hA {
					e.Violate("depends-on-source", "source=raw-after-file", "a manager that read a file earlier hashes the received text to %q, a fresh one to %q", h, hA)
				}
			}
		}
	}
	// a real sidecar reports it through its API
	if tp.Bool("sidecar_reports", 1, 3) {
		opt := sidecarsim.Options{Dir: dir}
		textS, hS := textA, hA
		if tp.Bool("in_cluster_credentials_job", 1, 2) {
			// a job with the in-cluster service account token, and a sidecar process that runs with
			// --inject.kubernetes-sa-path (a process-local flag: it must not change what the content hashes to)
			t3 := cfggen.Clone(tree).(*cfggen.Map)
			jl := t3.Get("scrape_configs").(*cfggen.List)
			jl.Items = append(jl.Items, cfggen.M(
				cfggen.KV{K: "job_name", V: cfggen.F("in-cluster")},
				cfggen.KV{K: "bearer_token_file", V: cfggen.F("/var/run/secrets/kubernetes.io/serviceaccount/token")},
				cfggen.KV{K: "static_configs", V: cfggen.L(false, cfggen.M(cfggen.KV{K: "targets", V: cfggen.L(false, cfggen.F("kube-state:8080"))}))}))
			textS = cfggen.Render(t3, stA)
			var err error
			if hS, err = hashOf(textS); err != nil {
				e.Undecided("configuration with the in-cluster job rejected: %v\n%s", err, textS)
				return
			}
			if tp.Bool("sidecar_sa_path_flag", 2, 3) {
				opt.SAPath = "/custom/serviceaccount"
				e.Probe("sidecar_with_sa_path_flag")
			}
		}
		sc := sidecarsim.Start(opt)
		defer sc.Stop()
		if sc.LoadErr == nil {
			if err := sc.PushConfig(textS); err != nil {
				e.Undecided("sidecar rejected the configuration: %v", err)
				return
			}
			rt, err := sc.GetRuntime()
			if err != nil {
				e.Undecided("runtimeinfo: %v", err)
				return
			}
			e.Probe("sidecar_reported_hash")
			if rt.ConfigHash != hS {
				e.Violate("sidecar-differs", "", "sidecar reports hash %q for the configuration the coordinator hashes as %q", rt.ConfigHash, hS)
			}
		}
	}
	// one long-lived manager (the coordinator's, reloading as the operator edits the file) sees every
	// text of this run in turn; after each reload its hash must be what a fresh process computes
	longLived := prom.NewConfigManager()
	_ = longLived.ReloadFromRaw([]byte(textA))
	sameAsFresh := func(text, fresh, what string) {
		if err := longLived.ReloadFromRaw([]byte(text)); err != nil {
			return
		}
		if h := longLived.ConfigInfo().ConfigHash; h != fresh {
			e.Violate("depends-on-history", "past=earlier-reloads-in-the-same-process,change="+what, "a manager that reloaded this run's earlier texts computes hash %q for content a fresh manager hashes as %q (last change: %s)", h, fresh, what)
		}
	}
	// cosmetic re-renderings and external-label changes
	nCos := 1 + tp.Choose("n_cosmetic", 3)
	for i := 0; i < nCos && !e.Failed(); i++ {
		t2 := cfggen.Clone(tree).(*cfggen.Map)
		kind := "formatting"
		if tp.Bool("external_labels_edit", 1, 3) {
			kind = "external-labels"
			g := t2.Get("global").(*cfggen.Map)
			switch tp.Choose("ext_edit", 3) {
			case 0:
				g.Del("external_labels")
			case 1:
				g.Del("external_labels")
				g.Add("external_labels", cfggen.M(cfggen.KV{K: "cluster", V: cfggen.F("other")}, cfggen.KV{K: "added", V: cfggen.F("x")}))
			default:
				g.Del("external_labels")
				g.Add("external_labels", cfggen.M(cfggen.KV{K: "replica", V: cfggen.F("r9")}))
			}
		}
		st := cfggen.DrawStyle(tp)
		textB := cfggen.Render(t2, st)
		hB, err := hashOf(textB)
		if err != nil {
			e.Undecided("cosmetic variant rejected: %v\n%s", err, textB)
			return
		}
		e.Key("cosmetic", kind)
		sameAsFresh(textB, hB, "cosmetic")
		if hB != hA {
			e.Violate("oversensitive", "kind="+kind, "a %s-only change altered the hash (%s -> %s); styles %+v / %+v", kind, hA, hB, stA, st)
		}
	}
	// single-setting semantic edits
	nSem := 1 + tp.Choose("n_semantic", 4)
	for i := 0; i < nSem && !e.Failed(); i++ {
		var t2 interface{}
		var ed *cfggen.Edit
		ok := false
		for try := 0; try < 6; try++ {
			t2, ed, ok = cfggen.ApplyEdit(tp, tree)
			if !ok {
				break
			}
			if strings.Contains(ed.Path, "external_labels") || (avoidRegex && ed.Kind == "regex") {
				ok = false
				continue
			}
			break
		}
		if !ok {
			continue
		}
		textC := cfggen.Render(t2, cfggen.DrawStyle(tp))
		hC, err := hashOf(textC)
		if err != nil {
			e.Undecided("edited config rejected (%+v): %v", ed, err)
			return
		}
		if ed.Kind == "reorder" {
			// swapping two entries that Prometheus loads to the same rule (one spells a default out,
			// e.g. `separator: ;`) changes the text, not the configuration: not a semantic edit
			ca, errA := config.Load(textA, false, log.NewNopLogger())
			cc, errC := config.Load(textC, false, log.NewNopLogger())
			if errA == nil && errC == nil && ca.String() == cc.String() {
				e.Probe("reorder_of_equivalent_entries_skipped")
				continue
			}
		}
		field := idxRe.ReplaceAllString(fieldClass(ed.Path), "")
		e.Key("semantic", ed.Kind, field)
		sameAsFresh(textC, hC, "semantic:"+ed.Kind)
		sameAsFresh(textA, hA, "back-to-original")
		e.Probe("semantic_edit_" + ed.Kind)
		if hC == hA {
			e.Logf("original text:\n%s\nedited text:\n%s", textA, textC)
			e.Violate("insensitive", "field="+field, "changing %s from %q to %q (%s edit) does not change the hash %s", ed.Path, ed.From, ed.To, ed.Kind, hA)
		}
	}
}

func lastLine(s string) string {
	s = strings.TrimSpace(s)
	if i := strings.LastIndexByte(s, '\n'); i >= 0 {
		return s[i+1:]
	}
	return s
}
