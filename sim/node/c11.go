package node

import (
	"fmt"
	"os"
	"path/filepath"
	"reflect"
	"sort"
	"strings"
	"testing/synctest"

	"github.com/go-kit/log"
	config_util "github.com/prometheus/common/config"
	"github.com/prometheus/common/model"
	"github.com/prometheus/prometheus/config"
	"github.com/prometheus/prometheus/discovery"
	"github.com/prometheus/prometheus/model/labels"
	"gopkg.in/yaml.v2"

	"kvassverif/cfggen"
	"kvassverif/core"
	"kvassverif/sched"
	"kvassverif/sidecarsim"

	"tkestack.io/kvass/pkg/prom"
	"tkestack.io/kvass/pkg/shard"
	"tkestack.io/kvass/pkg/target"
)

type secretAt struct {
	path string
	val  string
}

// secretsOf walks exported fields and lists every config_util.Secret with its path.
func secretsOf(v reflect.Value, path string, out *[]secretAt) {
	if !v.IsValid() {
		return
	}
	if v.Type() == reflect.TypeOf(config_util.Secret("")) {
		*out = append(*out, secretAt{path, v.String()})
		return
	}
	switch v.Kind() {
	case reflect.Ptr, reflect.Interface:
		if !v.IsNil() {
			secretsOf(v.Elem(), path, out)
		}
	case reflect.Struct:
		t := v.Type()
		for i := 0; i < v.NumField(); i++ {
			if t.Field(i).PkgPath != "" {
				continue
			}
			n := t.Field(i).Name
			if tag := strings.Split(t.Field(i).Tag.Get("yaml"), ",")[0]; tag != "" && tag != "-" {
				n = tag
			}
			secretsOf(v.Field(i), path+"."+n, out)
		}
	case reflect.Slice, reflect.Array:
		for i := 0; i < v.Len(); i++ {
			secretsOf(v.Index(i), path+"[]", out)
		}
	case reflect.Map:
		keys := v.MapKeys()
		sort.Slice(keys, func(a, b int) bool { return fmt.Sprint(keys[a]) < fmt.Sprint(keys[b]) })
		for _, k := range keys {
			secretsOf(v.MapIndex(k), path+"."+fmt.Sprint(k), out)
		}
	}
}

func yamlOf(v interface{}) string {
	b, _ := yaml.Marshal(v)
	return string(b)
}

type c11Asg map[string][]*target.Target

func genC11Assignment(tp *core.Tape, jobs []string, avoidBadName bool) c11Asg {
	asg := c11Asg{}
	names := append(append([]string{}, jobs...), "ghost-job")
	h := uint64(5000)
	for _, j := range names {
		n := tp.Weighted("n_assigned", 2, 3, 2, 1)
		if j == "ghost-job" && !tp.Bool("ghost", 1, 3) {
			continue
		}
		for i := 0; i < n; i++ {
			h++
			scheme := core.Pick(tp, "t_scheme", "http", "https")
			t := &target.Target{Hash: h + uint64(tp.Choose("hash_jitter", 3))*1000, Series: int64(tp.Choose("t_series", 100)),
				TargetState: core.Pick(tp, "t_state", "", "", "in_transfer"),
				Labels: labels.Labels{
					{Name: "__address__", Value: fmt.Sprintf("%s-%d.example:%d", j, i, 9000+tp.Choose("t_port", 100))},
					{Name: "__metrics_path__", Value: core.Pick(tp, "t_path", "/metrics", "/probe")},
					{Name: "__scheme__", Value: scheme},
					{Name: "instance", Value: fmt.Sprintf("%s-%d", j, i)},
					{Name: "job", Value: j},
				}}
			if tp.Bool("t_param", 1, 3) {
				t.Labels = append(t.Labels, labels.Label{Name: "__param_target", Value: "http://x.example/?a=b&c=d"})
			}
			switch tp.Weighted("t_odd_label", 4, 2, 1) {
			case 1: // a name the invalid-label prefix makes valid (starts with a digit)
				t.Labels = append(t.Labels, labels.Label{Name: target.PrefixForInvalidLabelName + "1st_label", Value: "v w"})
			case 2: // a name that stays invalid even with the prefix
				if !avoidBadName {
					t.Labels = append(t.Labels, labels.Label{Name: target.PrefixForInvalidLabelName + "odd-name.with/chars", Value: "v w"})
				}
			}
			if tp.Bool("t_extra", 1, 2) {
				t.Labels = append(t.Labels, labels.Label{Name: "zone", Value: core.Pick(tp, "t_zone", "a", "b \"q\"", "ü")})
			}
			asg[j] = append(asg[j], t)
		}
	}
	return asg
}

func c11Run(tp *core.Tape, e *core.Env) {
	if problem := sidecarsim.InBubble(e.T, func() { c11Body(tp, e) }); problem != "" {
		e.Undecided("node engine (C11): %s", problem)
	}
}

func c11Body(tp *core.Tape, e *core.Env) {
	dir := filepath.Join(e.Scratch, fmt.Sprintf("c11-%d", e.RunIndex))
	_ = os.RemoveAll(dir)
	_ = os.MkdirAll(dir, 0o755)
	defer os.RemoveAll(dir)
	avoid := e.AvoidKnown && e.Known.OpenTrigger("C11", "section_secrets")
	opts := cfggen.Opts{SDKinds: true, NoSectionSecrets: avoid}
	fileMode := tp.Bool("file_mode", 1, 2)
	monitor := tp.Bool("self_monitor", 1, 3)
	var ops []string
	sample := map[string]interface{}{"file_mode": fileMode, "self_monitor": monitor}
	defer func() { sample["operations"] = ops; e.SetSample(sample) }()

	var curTree *cfggen.Map
	var curJobs []string
	var curText string
	newConfig := func() {
		kind := 0
		if curTree != nil {
			kind = tp.Weighted("config_change", 5, 3, 2)
		}
		switch kind {
		case 1: // only the external labels change (the config hash ignores them; the file must not)
			t2 := cfggen.Clone(curTree).(*cfggen.Map)
			g := t2.Get("global").(*cfggen.Map)
			g.Del("external_labels")
			g.Add("external_labels", cfggen.M(cfggen.KV{K: "cluster", V: cfggen.F(fmt.Sprintf("moved-%d", tp.Choose("ext_cluster", 50)))}, cfggen.KV{K: "added", V: cfggen.F("x")}))
			curTree = t2
			e.Probe("config_change_external_labels_only")
		case 2: // the same configuration in another YAML style
			e.Probe("config_change_style_only")
		default:
			curTree, curJobs = cfggen.Config(tp, opts)
		}
		curText = cfggen.Render(curTree, cfggen.DrawStyle(tp))
	}
	opt := sidecarsim.Options{Dir: dir, ShardMonitor: monitor}
	if fileMode {
		newConfig()
		opt.ConfigFile = filepath.Join(dir, "prometheus.env.yaml")
		_ = os.WriteFile(opt.ConfigFile, []byte(curText), 0o644)
	}
	sc := sidecarsim.Start(opt)
	if sc.LoadErr != nil {
		e.Undecided("sidecar start failed on a valid generated config: %v\n%s", sc.LoadErr, curText)
		return
	}
	asg := c11Asg{}
	ackAsg := c11Asg{} // the last assignment the sidecar acknowledged (what its store holds)
	check := func(after string) {
		data, err := os.ReadFile(sc.OutFile)
		if err != nil {
			e.Violate("no-file", "after="+after, "generated file missing after %s: %v", after, err)
			return
		}
		if curTree == nil {
			if string(data) != string(prom.DefaultConfig.RawContent) {
				e.Violate("placeholder", "", "before the first configuration the file is not the placeholder:\n%s", clip(string(data)))
			}
			return
		}
		checkGenerated(e, string(data), curTree, curText, curJobs, asg, monitor, after)
	}
	check("start")
	nOps := tp.Range("n_ops", 2, 6)
	for i := 0; i < nOps && !e.Failed(); i++ {
		if curTree != nil && tp.Bool("concurrent_config_and_targets", 1, 5) {
			// a configuration change and a new assignment arrive at the same time (two HTTP requests):
			// every Lock() in pkg/sidecar is a scheduling point, the order is drawn
			newConfig()
			asg = genC11Assignment(tp, curJobs, e.AvoidKnown && e.Known.OpenTrigger("C11", "label_name_invalid_after_prefix"))
			if fileMode {
				_ = os.WriteFile(opt.ConfigFile, []byte(curText), 0o644)
			}
			s := sched.Install()
			var errC, errT error
			doneC, doneT := make(chan struct{}), make(chan struct{})
			go func() {
				defer close(doneC)
				if fileMode {
					errC = sc.ReloadFile()
				} else {
					errC = sc.PushConfig(curText)
				}
			}()
			go func() {
				defer close(doneT)
				errT = sc.PostTargets(&shard.UpdateTargetsRequest{Targets: asg})
			}()
			finished := func(c chan struct{}) bool {
				select {
				case <-c:
					return true
				default:
					return false
				}
			}
			yields := 0
			for step := 0; step < 400; step++ {
				synctest.Wait()
				pend := s.Pending()
				if len(pend) == 0 {
					break
				}
				yields++
				s.Release(pend[tp.Choose("yield", len(pend))])
			}
			s.Uninstall()
			synctest.Wait()
			if !finished(doneC) || !finished(doneT) {
				e.Violate("concurrent-requests-stuck", "", "a configuration change and a target update sent at the same time: not both requests returned")
				return
			}
			if errC != nil || errT != nil {
				e.Undecided("concurrent config (%v) / targets (%v) rejected", errC, errT)
				return
			}
			ops = append(ops, fmt.Sprintf("concurrent config+targets (%d scheduling points)", yields))
			e.Logf("op %d concurrent config jobs=%v + targets, %d scheduling points", i, curJobs, yields)
			ackAsg = asg
			e.Probe("concurrent_config_and_targets")
			check("concurrent-config-and-targets")
			continue
		}
		if curTree != nil && tp.Bool("sidecar_restarts", 1, 8) {
			// the sidecar process is restarted over its directory: its file must again be the latest
			// configuration (re-read from the file, or pushed again by the coordinator) x the stored assignment
			sc = sc.Restart()
			if sc.LoadErr != nil {
				e.Violate("restart-fails", "", "the sidecar command does not come back after a restart: %v", sc.LoadErr)
				return
			}
			asg = ackAsg // a refused update that the old process held in memory only is gone
			if !fileMode {
				if err := sc.PushConfig(curText); err != nil {
					e.Undecided("configuration rejected after a restart: %v", err)
					return
				}
			}
			ops = append(ops, "restart")
			e.Logf("op %d restart", i)
			e.Fault("sidecar_restart")
			check("restart")
			continue
		}
		if curTree != nil && tp.Bool("targets_while_file_unwritable", 1, 8) {
			// a new assignment arrives while the generated file cannot be written (the path is taken by
			// a directory); afterwards the fault is gone and a configuration change is applied: the file
			// must then list what the sidecar itself reports as assigned
			newAsg := genC11Assignment(tp, curJobs, e.AvoidKnown && e.Known.OpenTrigger("C11", "label_name_invalid_after_prefix"))
			bak := sc.OutFile + ".moved"
			_ = os.Rename(sc.OutFile, bak)
			_ = os.Mkdir(sc.OutFile, 0o755)
			err := sc.PostTargets(&shard.UpdateTargetsRequest{Targets: newAsg})
			_ = os.Remove(sc.OutFile)
			_ = os.Rename(bak, sc.OutFile)
			e.Fault("generated_file_unwritable")
			claimed := false
			if st, serr := sc.GetStatus(); serr == nil {
				want := map[uint64]bool{}
				for _, ts := range newAsg {
					for _, t := range ts {
						want[t.Hash] = true
					}
				}
				claimed = len(st) == len(want)
				for h := range st {
					if !want[h] {
						claimed = false
					}
				}
			}
			if err == nil || claimed {
				asg = newAsg
			}
			if err == nil {
				ackAsg = newAsg
			}
			ops = append(ops, fmt.Sprintf("targets while the file is unwritable (update error: %v, sidecar reports the new assignment: %v)", err != nil, claimed))
			e.Logf("op %d targets while the generated file is unwritable: refused=%v claimed=%v", i, err != nil, claimed)
			newConfig()
			if fileMode {
				_ = os.WriteFile(opt.ConfigFile, []byte(curText), 0o644)
				err = sc.ReloadFile()
			} else {
				err = sc.PushConfig(curText)
			}
			if err != nil {
				e.Undecided("a valid generated configuration was rejected: %v\n%s", err, curText)
				return
			}
			e.Probe("config_after_refused_targets")
			check("config-after-refused-targets")
			continue
		}
		if tp.Bool("op_is_config", 2, 5) || (curTree == nil && tp.Bool("first_config", 1, 2)) {
			newConfig()
			var err error
			if fileMode {
				_ = os.WriteFile(opt.ConfigFile, []byte(curText), 0o644)
				err = sc.ReloadFile()
			} else {
				err = sc.PushConfig(curText)
			}
			ops = append(ops, fmt.Sprintf("config jobs=%v bytes=%d", curJobs, len(curText)))
			e.Logf("op %d config jobs=%v", i, curJobs)
			if err != nil {
				e.Undecided("a valid generated configuration was rejected: %v\n%s", err, curText)
				return
			}
			e.Probe("config_applied")
			check("config")
		} else {
			asg = genC11Assignment(tp, curJobs, e.AvoidKnown && e.Known.OpenTrigger("C11", "label_name_invalid_after_prefix"))
			var d []string
			for j, ts := range asg {
				d = append(d, fmt.Sprintf("%s:%d", j, len(ts)))
			}
			sort.Strings(d)
			ops = append(ops, "targets "+strings.Join(d, " "))
			e.Logf("op %d targets %s", i, strings.Join(d, " "))
			if err := sc.PostTargets(&shard.UpdateTargetsRequest{Targets: asg}); err != nil {
				e.Undecided("target update failed: %v", err)
				return
			}
			ackAsg = asg
			e.Probe("targets_applied")
			check("targets")
		}
	}
}

func checkGenerated(e *core.Env, data string, tree *cfggen.Map, origText string, jobs []string, asg c11Asg, monitor bool, after string) {
	gen, err := config.Load(data, false, log.NewNopLogger())
	if err != nil {
		cause := "other"
		if strings.Contains(err.Error(), "is not a valid label name") {
			cause = "invalid-label-name"
		}
		e.Violate("invalid-file", "cause="+cause, "after %s the generated file is not a valid Prometheus configuration: %v\n%s", after, err, clip(data))
		return
	}
	orig, err := config.Load(origText, false, log.NewNopLogger())
	if err != nil {
		e.Undecided("original config does not load: %v", err)
		return
	}
	// no scrape-job secret anywhere in the file
	for tok, path := range cfggen.Secrets(tree) {
		if strings.HasPrefix(path, "scrape_configs") && strings.Contains(data, tok) {
			e.Violate("job-secret-in-file", "field="+path, "secret %s of a scrape job appears in the generated file", path)
		}
	}
	// jobs: same names, same order (+ prometheus_shards)
	var gotNames []string
	for _, j := range gen.ScrapeConfigs {
		gotNames = append(gotNames, j.JobName)
	}
	want := append([]string{}, jobs...)
	if monitor {
		want = append(want, "prometheus_shards")
	}
	if strings.Join(gotNames, ",") != strings.Join(want, ",") {
		e.Violate("jobs", "", "jobs in the generated file %v, expected %v", gotNames, want)
		return
	}
	nJobsWithTargets := 0
	for i, oj := range orig.ScrapeConfigs {
		gj := gen.ScrapeConfigs[i]
		bad := func(field, f string, a ...interface{}) {
			e.Violate("job-field", "field="+field, "job %s: "+f, append([]interface{}{oj.JobName}, a...)...)
		}
		if gj.Scheme != "http" {
			bad("scheme", "scheme %q, expected http (the proxy speaks plain http)", gj.Scheme)
		}
		if gj.HTTPClientConfig.ProxyURL.URL == nil || gj.HTTPClientConfig.ProxyURL.String() != sidecarsim.ProxyURL {
			bad("proxy_url", "proxy_url %v, expected %s", gj.HTTPClientConfig.ProxyURL, sidecarsim.ProxyURL)
		}
		if gj.HTTPClientConfig.BasicAuth != nil {
			bad("basic_auth", "basic_auth still present")
		}
		if !reflect.DeepEqual(gj.HTTPClientConfig.TLSConfig, config_util.TLSConfig{}) {
			bad("tls_config", "tls settings still present: %+v", gj.HTTPClientConfig.TLSConfig)
		}
		// ingestion-relevant settings
		cmp := []struct {
			n    string
			a, b interface{}
		}{
			{"honor_labels", oj.HonorLabels, gj.HonorLabels}, {"honor_timestamps", oj.HonorTimestamps, gj.HonorTimestamps},
			{"params", oj.Params, gj.Params}, {"scrape_interval", oj.ScrapeInterval, gj.ScrapeInterval},
			{"scrape_timeout", oj.ScrapeTimeout, gj.ScrapeTimeout}, {"metrics_path", oj.MetricsPath, gj.MetricsPath},
			{"sample_limit", oj.SampleLimit, gj.SampleLimit}, {"target_limit", oj.TargetLimit, gj.TargetLimit},
			{"label_limit", oj.LabelLimit, gj.LabelLimit}, {"label_name_length_limit", oj.LabelNameLengthLimit, gj.LabelNameLengthLimit},
			{"label_value_length_limit", oj.LabelValueLengthLimit, gj.LabelValueLengthLimit}, {"body_size_limit", oj.BodySizeLimit, gj.BodySizeLimit},
			{"metric_relabel_configs", yamlOf(oj.MetricRelabelConfigs), yamlOf(gj.MetricRelabelConfigs)},
		}
		for _, c := range cmp {
			if !reflect.DeepEqual(c.a, c.b) {
				bad(c.n, "%s is %v, original %v", c.n, c.b, c.a)
			}
		}
		// targets: exactly the assigned ones, as static entries, no other SD
		var groups []*targetGroupView
		for _, sdc := range gj.ServiceDiscoveryConfigs {
			st, ok := sdc.(discovery.StaticConfig)
			if !ok {
				bad("service_discovery", "non-static service discovery %q left in the generated job", sdc.Name())
				continue
			}
			for _, g := range st {
				groups = append(groups, &targetGroupView{targets: g.Targets, labels: g.Labels})
			}
		}
		assigned := asg[oj.JobName]
		if len(assigned) > 0 {
			nJobsWithTargets++
		}
		if len(groups) != len(assigned) {
			bad("targets", "%d static entries for %d assigned targets", len(groups), len(assigned))
			continue
		}
		for _, t := range assigned {
			var g *targetGroupView
			for _, x := range groups {
				if string(x.labels[model.LabelName("__param__hash")]) == fmt.Sprint(t.Hash) {
					g = x
				}
			}
			if g == nil {
				bad("targets", "assigned target %d has no static entry", t.Hash)
				continue
			}
			if len(g.targets) != 1 || string(g.targets[0][model.AddressLabel]) != t.Labels.Get("__address__") {
				bad("target-address", "target %d: entry targets %v, expected address %s", t.Hash, g.targets, t.Labels.Get("__address__"))
			}
			if string(g.labels["__param__jobName"]) != oj.JobName || string(g.labels["__param__scheme"]) != t.Labels.Get("__scheme__") || string(g.labels["__scheme__"]) != "http" {
				bad("target-routing", "target %d: routing labels %v", t.Hash, g.labels)
			}
			for _, l := range t.Labels {
				if l.Name == "__scheme__" {
					continue
				}
				if string(g.labels[model.LabelName(l.Name)]) != l.Value {
					bad("target-label", "target %d: label %s = %q, expected %q", t.Hash, l.Name, g.labels[model.LabelName(l.Name)], l.Value)
				}
			}
		}
	}
	if nJobsWithTargets > 0 {
		e.Probe("job_with_targets_checked")
	}
	// global / rules / alerting / remote sections, including secret values
	secs := []struct {
		n    string
		a, b interface{}
	}{
		{"global", orig.GlobalConfig, gen.GlobalConfig}, {"rule_files", orig.RuleFiles, gen.RuleFiles},
		{"alerting", orig.AlertingConfig, gen.AlertingConfig}, {"remote_write", orig.RemoteWriteConfigs, gen.RemoteWriteConfigs},
		{"remote_read", orig.RemoteReadConfigs, gen.RemoteReadConfigs},
	}
	var allOrig []secretAt
	for _, s := range secs {
		secretsOf(reflect.ValueOf(s.a), s.n, &allOrig)
	}
	for _, s := range secs {
		if reflect.DeepEqual(s.a, s.b) {
			continue
		}
		var so, sg []secretAt
		secretsOf(reflect.ValueOf(s.a), s.n, &so)
		secretsOf(reflect.ValueOf(s.b), s.n, &sg)
		reported := false
		if len(so) == len(sg) {
			for i := range so {
				if so[i].val == sg[i].val {
					continue
				}
				outcome := "garbled"
				if sg[i].val == "<secret>" {
					outcome = "lost"
				} else {
					for _, o := range allOrig {
						if o.val == sg[i].val {
							outcome = "replaced-by-other-secret"
						}
					}
				}
				reported = true
				e.Violate("section-secret", so[i].path+":"+outcome, "after %s: secret %s of the original configuration is %s in the generated file (%q)", after, so[i].path, outcome, sg[i].val)
			}
		}
		if !reported {
			e.Violate("section-differs", "section="+s.n, "after %s: section %s differs from the original:\n--- original\n%s--- generated\n%s", after, s.n, clip(yamlOf(s.a)), clip(yamlOf(s.b)))
		}
	}
	e.Key(fmt.Sprintf("jobs=%d", len(jobs)), fmt.Sprintf("rw=%d", len(orig.RemoteWriteConfigs)), fmt.Sprintf("alerting=%v", len(orig.AlertingConfig.AlertmanagerConfigs) > 0),
		fmt.Sprintf("assigned=%d", nJobsWithTargets), fmt.Sprintf("monitor=%v", monitor), after)
}

type targetGroupView struct {
	targets []model.LabelSet
	labels  model.LabelSet
}
