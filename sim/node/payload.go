// Package node is the node engine: one real sidecar under a drawn sequence of
// operations (target updates, config pushes, scrapes with drawn outcomes,
// restarts, clock advances, reads), checked against a reference model.
package node

import (
	"bytes"
	"fmt"
	"sort"
	"strings"

	"github.com/prometheus/prometheus/model/labels"
	"github.com/prometheus/prometheus/model/relabel"

	"kvassverif/core"
)

// Sample is one exposition sample with a known label set.
type Sample struct {
	Name   string
	Labels [][2]string
}

var metricNames = []string{"up_time", "drop_me", "http_requests_total", "drop_other", "x"}

// GenSamples draws n samples; duplicates (same name and labels) are possible.
func GenSamples(tp *core.Tape, n int) []Sample {
	out := make([]Sample, 0, n)
	for i := 0; i < n; i++ {
		s := Sample{Name: metricNames[tp.Choose("metric", len(metricNames))]}
		nl := tp.Weighted("nlabels", 3, 3, 2, 1)
		for j := 0; j < nl; j++ {
			k := core.Pick(tp, "lname", "keep", "zone", "code", "drop_label")
			v := core.Pick(tp, "lvalue", "yes", "no", "a b", "200", "with\\\"quote")
			dup := false
			for _, l := range s.Labels {
				if l[0] == k {
					dup = true
				}
			}
			if !dup {
				s.Labels = append(s.Labels, [2]string{k, v})
			}
		}
		out = append(out, s)
	}
	return out
}

// Render writes the samples in text exposition format. style adds comment,
// HELP/TYPE and blank lines, CRLF, or omits the trailing newline.
func Render(samples []Sample, extras bool, crlf bool, noTrailingNL bool) []byte {
	var b bytes.Buffer
	nl := "\n"
	if crlf {
		nl = "\r\n"
	}
	for i, s := range samples {
		if extras && i%3 == 0 {
			fmt.Fprintf(&b, "# HELP %s some help%s# TYPE %s gauge%s", s.Name, nl, s.Name, nl)
		}
		if extras && i%4 == 1 {
			b.WriteString("# a comment" + nl + nl)
		}
		b.WriteString(s.Name)
		if len(s.Labels) > 0 {
			b.WriteString("{")
			for j, l := range s.Labels {
				if j > 0 {
					b.WriteString(",")
				}
				fmt.Fprintf(&b, "%s=\"%s\"", l[0], l[1])
			}
			b.WriteString("}")
		}
		fmt.Fprintf(&b, " %d", i+1)
		if i%5 == 2 {
			fmt.Fprintf(&b, " %d", 1600000000000+i)
		}
		if i < len(samples)-1 || !noTrailingNL {
			b.WriteString(nl)
		}
	}
	return b.Bytes()
}

// Counts returns (total, kept) where kept is the number of samples for which
// Prometheus' own relabel.Process on that sample's labels is non-nil, plus the
// per-metric counts.
func Counts(samples []Sample, rc []*relabel.Config) (total, kept int, perMetric map[string][2]int) {
	perMetric = map[string][2]int{}
	for _, s := range samples {
		ls := []labels.Label{{Name: "__name__", Value: s.Name}}
		for _, l := range s.Labels {
			ls = append(ls, labels.Label{Name: l[0], Value: strings.ReplaceAll(l[1], "\\\"", "\"")})
		}
		sort.Slice(ls, func(a, b int) bool { return ls[a].Name < ls[b].Name })
		total++
		pm := perMetric[s.Name]
		pm[0]++
		if relabel.Process(labels.Labels(ls), rc...) != nil {
			kept++
			pm[1]++
		}
		perMetric[s.Name] = pm
	}
	return
}
