package node

import (
	"encoding/json"
	"flag"
	"fmt"
	"os"
	"os/exec"
	"path/filepath"
	"runtime"
	"sort"
	"strings"
	"syscall"
	"time"

	"github.com/prometheus/client_golang/prometheus"
	"github.com/prometheus/prometheus/model/labels"

	"kvassverif/core"
	"kvassverif/cycle"
	"kvassverif/sidecarsim"

	"tkestack.io/kvass/pkg/shard"
	"tkestack.io/kvass/pkg/sidecar"
	"tkestack.io/kvass/pkg/target"
)

// ---- assignments -----------------------------------------------------------

var trickyValues = []string{"plain", "with \"quotes\"", "back\\slash", "ünï©ode ✓", "<>&", "line\nbreak", "tab\there", "{\"json\":true}", "", "trailing\\"}

func genAssignment(tp *core.Tape, kind int) map[string][]*target.Target {
	req := map[string][]*target.Target{}
	switch kind {
	case 0: // empty
		return req
	case 3: // large: store well above 64 KiB
		for i := 0; i < 400; i++ {
			job := Jobs[i%3]
			t := MkTarget(uint64(1000+i), job, "", int64(i), int64(2*i))
			t.Labels = append(t.Labels, labels.Label{Name: "pad", Value: strings.Repeat("x", 150)})
			req[job] = append(req[job], t)
		}
		return req
	}
	n := 1
	if kind == 2 {
		n = 2 + tp.Choose("n_targets", 5)
	}
	for i := 0; i < n; i++ {
		job := Jobs[tp.Choose("job", len(Jobs))]
		state := ""
		if tp.Bool("in_transfer", 1, 3) {
			state = "in_transfer"
		}
		t := MkTarget(uint64(200+tp.Choose("hash", 12)), job, state, int64(tp.Choose("series", 1000)), int64(tp.Choose("total", 5000)))
		dup := false
		for _, ts := range req {
			for _, o := range ts {
				if o.Hash == t.Hash {
					dup = true
				}
			}
		}
		if dup {
			continue
		}
		nl := tp.Choose("n_labels", 4)
		for j := 0; j < nl; j++ {
			t.Labels = append(t.Labels, labels.Label{Name: fmt.Sprintf("l%d", j), Value: trickyValues[tp.Choose("value", len(trickyValues))]})
		}
		req[job] = append(req[job], t)
	}
	return req
}

// canon renders what a started sidecar resumes: targets per job (hash, labels,
// state, series, total) and whether/when it is idle.
func canon(ti sidecar.TargetsInfo) string {
	type tj struct {
		Job    string
		Hash   uint64
		Labels string
		State  string
		Series int64
		Total  int64
	}
	var l []tj
	for job, ts := range ti.Targets {
		for _, t := range ts {
			l = append(l, tj{job, t.Hash, labels.New(t.Labels...).String(), t.TargetState, t.Series, t.TotalSeries})
		}
	}
	sort.Slice(l, func(a, b int) bool {
		if l[a].Hash != l[b].Hash {
			return l[a].Hash < l[b].Hash
		}
		return l[a].Job < l[b].Job
	})
	b, _ := json.Marshal(l)
	idle := "busy"
	if ti.IdleAt != nil {
		idle = "idle@" + ti.IdleAt.UTC().Format(time.RFC3339Nano)
	}
	// the status map must have exactly the assigned hashes
	var hs []string
	for h := range ti.Status {
		hs = append(hs, fmt.Sprint(h))
	}
	sort.Strings(hs)
	return string(b) + " " + idle + " status=" + strings.Join(hs, ",")
}

func newTM(dir string) *sidecar.TargetsManager {
	return sidecar.NewTargetsManager(dir, prometheus.NewRegistry(), cycle.Quiet())
}

// startFresh is "a fresh process runs the real start path".
func startFresh(dir string) (string, error) {
	tm := newTM(dir)
	if err := tm.Load(); err != nil {
		return "", err
	}
	return canon(tm.TargetsInfo()), nil
}

func withFsizeLimit(n int, f func()) {
	var old syscall.Rlimit
	_ = syscall.Getrlimit(syscall.RLIMIT_FSIZE, &old)
	lim := syscall.Rlimit{Cur: uint64(n), Max: old.Max}
	if err := syscall.Setrlimit(syscall.RLIMIT_FSIZE, &lim); err != nil {
		panic(err)
	}
	defer func() { _ = syscall.Setrlimit(syscall.RLIMIT_FSIZE, &old) }()
	f()
}

func copyDir(src, dst string) {
	_ = os.RemoveAll(dst)
	_ = os.MkdirAll(dst, 0o755)
	ents, _ := os.ReadDir(src)
	for _, en := range ents {
		b, _ := os.ReadFile(filepath.Join(src, en.Name()))
		_ = os.WriteFile(filepath.Join(dst, en.Name()), b, 0o755)
	}
}

func storeSize(dir string) int {
	max := 0
	ents, _ := os.ReadDir(dir)
	for _, en := range ents {
		if fi, err := en.Info(); err == nil && int(fi.Size()) > max {
			max = int(fi.Size())
		}
	}
	return max
}

// ---- the child process ("a sidecar process" applying updates) -----------------

type childSpec struct {
	Dir    string
	A, B   map[string][]*target.Target
	Limit  int  // RLIMIT_FSIZE for the B update (-1 = none)
	AtLoad bool // arm the limit before Load instead (fault in the write Load performs)
}

func c09Child(args []string) int {
	// strace counts injected syscalls per thread: keep all store I/O on one thread
	runtime.LockOSThread()
	fs := flag.NewFlagSet("c09child", flag.ContinueOnError)
	in := fs.String("in", "", "")
	if fs.Parse(args) != nil {
		return 2
	}
	b, err := os.ReadFile(*in)
	if err != nil {
		return 2
	}
	var sp childSpec
	if json.Unmarshal(b, &sp) != nil {
		return 2
	}
	tm := newTM(sp.Dir)
	if sp.AtLoad && sp.Limit >= 0 {
		var old syscall.Rlimit
		_ = syscall.Getrlimit(syscall.RLIMIT_FSIZE, &old)
		_ = syscall.Setrlimit(syscall.RLIMIT_FSIZE, &syscall.Rlimit{Cur: uint64(sp.Limit), Max: old.Max})
	}
	if err := tm.Load(); err != nil {
		fmt.Println("LOAD-ERR", err)
		return 3
	}
	if sp.AtLoad {
		fmt.Println("LOADED")
		return 0
	}
	if sp.A != nil {
		if err := tm.UpdateTargets(&shard.UpdateTargetsRequest{Targets: sp.A}); err != nil {
			fmt.Println("A-ERR", err)
			return 4
		}
		fmt.Println("A-ACK")
	}
	if sp.Limit >= 0 {
		var old syscall.Rlimit
		_ = syscall.Getrlimit(syscall.RLIMIT_FSIZE, &old)
		_ = syscall.Setrlimit(syscall.RLIMIT_FSIZE, &syscall.Rlimit{Cur: uint64(sp.Limit), Max: old.Max})
	}
	fmt.Println("B-BEGIN")
	err = tm.UpdateTargets(&shard.UpdateTargetsRequest{Targets: sp.B})
	if err != nil {
		fmt.Println("B-ERR", err)
	} else {
		fmt.Println("B-ACK")
	}
	fmt.Println("STATE", canon(tm.TargetsInfo()))
	return 0
}

func init() { core.RegisterCommand("c09child", c09Child) }

var straceOK *bool

func haveStrace() bool {
	if straceOK != nil {
		return *straceOK
	}
	ok := false
	if p, err := exec.LookPath("strace"); err == nil {
		out, err := exec.Command(p, "-o", "/dev/null", "-e", "trace=write", "/bin/true").CombinedOutput()
		ok = err == nil
		_ = out
	}
	straceOK = &ok
	return ok
}

// ---- the run -------------------------------------------------------------------

func c09Run(tp *core.Tape, e *core.Env) {
	base := filepath.Join(e.Scratch, fmt.Sprintf("c09-%d", e.RunIndex))
	_ = os.RemoveAll(base)
	defer os.RemoveAll(base)
	tmpl := filepath.Join(base, "tmpl")
	_ = os.MkdirAll(tmpl, 0o755)

	kindNames := []string{"empty", "one", "many", "large", "same-targets-other-details"}
	ka := tp.Weighted("kind_a", 2, 3, 3, 1)
	kb := tp.Weighted("kind_b", 2, 3, 3, 1, 3)
	A := genAssignment(tp, ka)
	var B map[string][]*target.Target
	if kb == 4 {
		// the same targets (same jobs, same hashes), but state, series estimates or a label value differ
		B = map[string][]*target.Target{}
		changed := false
		for job, ts := range A {
			for _, t := range ts {
				c := *t
				c.Labels = append(labels.Labels{}, t.Labels...)
				switch tp.Choose("detail", 4) {
				case 0:
					if c.TargetState == "" {
						c.TargetState = "in_transfer"
					} else {
						c.TargetState = ""
					}
					changed = true
				case 1:
					c.Series += 7
					c.TotalSeries += 11
					changed = true
				case 2:
					c.Labels = append(c.Labels, labels.Label{Name: "added", Value: "later"})
					changed = true
				}
				B[job] = append(B[job], &c)
			}
		}
		if !changed {
			kb = 1
			B = genAssignment(tp, kb)
		}
	} else {
		B = genAssignment(tp, kb)
	}
	oldFormat := tp.Bool("old_format_start", 1, 6)
	sample := map[string]interface{}{"A": kindNames[ka], "B": kindNames[kb], "old_format_start": oldFormat}
	defer e.SetSample(sample)

	// template: state "A acknowledged" (optionally reached from an old-format store)
	if oldFormat {
		b, _ := json.Marshal(A)
		_ = os.WriteFile(filepath.Join(tmpl, "targets.json"), b, 0o755)
	}
	tmA := newTM(tmpl)
	if err := tmA.Load(); err != nil {
		e.Undecided("fault-free Load on a fresh directory failed: %v", err)
		return
	}
	if oldFormat {
		e.Probe("old_format_store_migrated")
	}
	if err := tmA.UpdateTargets(&shard.UpdateTargetsRequest{Targets: A}); err != nil {
		e.Undecided("fault-free update A failed: %v", err)
		return
	}
	wantA := canon(tmA.TargetsInfo())
	sizeA := storeSize(tmpl)

	// fault-free: clean restart resumes exactly A; then B acknowledged resumes exactly B
	{
		d := filepath.Join(base, "clean")
		copyDir(tmpl, d)
		got, err := startFresh(d)
		if err != nil || got != wantA {
			e.Violate("clean-restart", "after=A", "clean restart after acknowledged A: err=%v\n got %s\nwant %s", err, clip(got), clip(wantA))
			return
		}
		tm := newTM(d)
		_ = tm.Load()
		if err := tm.UpdateTargets(&shard.UpdateTargetsRequest{Targets: B}); err != nil {
			e.Undecided("fault-free update B failed: %v", err)
			return
		}
		wantB := canon(tm.TargetsInfo())
		got, err = startFresh(d)
		if err != nil || got != wantB {
			e.Violate("clean-restart", "after=B", "clean restart after acknowledged B: err=%v\n got %s\nwant %s", err, clip(got), clip(wantB))
			return
		}
		got2, err := startFresh(d)
		if err != nil || got2 != got {
			e.Violate("second-start-differs", "fault=none", "second clean start differs: err=%v", err)
			return
		}
		e.Probe("clean_restart_checked")
	}
	// the whole command: `kvass sidecar` (its real start path) started over the store a previous
	// process left serves exactly that assignment through its API, and again after B
	fileModeCmd := tp.Bool("command_file_mode", 1, 2)
	pushAtAPIUp := tp.Bool("refused_push_as_soon_as_the_api_is_up", 1, 2)
	cmdLevel := func() {

		d := filepath.Join(base, "command")
		copyDir(tmpl, filepath.Join(d, "store"))
		want := func(as map[string][]*target.Target) string {
			var out []string
			for _, ts := range as {
				for _, t := range ts {
					out = append(out, fmt.Sprintf("%d:%s", t.Hash, t.TargetState))
				}
			}
			sort.Strings(out)
			return strings.Join(out, ",")
		}
		served := func(sc *sidecarsim.Sidecar) (string, error) {
			st, err := sc.GetStatus()
			if err != nil {
				return "", err
			}
			var out []string
			for h, x := range st {
				out = append(out, fmt.Sprintf("%d:%s", h, x.TargetState))
			}
			sort.Strings(out)
			return strings.Join(out, ","), nil
		}
		fileMode := fileModeCmd
		opt := sidecarsim.Options{Dir: d}
		if fileMode {
			opt.ConfigFile = filepath.Join(d, "prometheus.env.yaml")
			_ = os.WriteFile(opt.ConfigFile, []byte(NodeConfig), 0o644)
		}
		if pushAtAPIUp {
			// the coordinator's next update (B) arrives the moment the restarted sidecar's API answers, and is
			// refused (its Prometheus does not reload yet): what the sidecar then holds, and what a further
			// restart resumes, is A (the last acknowledged) or B - never a mixture. In file mode the
			// simulator holds the start path's own Prometheus reload: a command that serves its API
			// before it has finished starting is caught in the act (the real one serves last).
			o2 := opt
			o2.NoSettle = true
			o2.HoldFirstReload = fileMode
			s0 := sidecarsim.Start(o2)
			sidecarsim.Settle() // whatever else the command has started gets to run while its reload is held
			early := fileMode && s0.Serving()
			if s0.LoadErr != nil {
				e.Violate("start-fails", "fault=none,level=command", "the sidecar command does not start over the store of acknowledged A: %v", s0.LoadErr)
				return
			}
			if !early {
				s0.ReleaseFirstReload()
				sidecarsim.Settle()
				if s0.LoadErr != nil {
					e.Violate("start-fails", "fault=none,level=command", "the sidecar command does not start over the store of acknowledged A: %v", s0.LoadErr)
					s0.Stop()
					return
				}
			} else {
				e.Probe("api_up_before_start_path_done")
			}
			s0.ReloadErr = fmt.Errorf("prometheus is still starting (injected)")
			if !fileMode {
				_ = s0.PushConfig(NodeConfig)
			}
			perr := s0.PostTargets(&shard.UpdateTargetsRequest{Targets: B})
			s0.ReloadErr = nil
			if early {
				s0.ReleaseFirstReload()
			}
			sidecarsim.Settle()
			e.Fault("refused_push_at_api_up")
			got, err := served(s0)
			if err != nil || (got != want(A) && got != want(B)) {
				e.Violate("resumes-neither", "fault=refused_push_at_api_up,level=command", "update B refused (%v) right after the restarted sidecar's API came up (before its start path was done: %v): it now serves neither A nor B: err=%v\n serves %s\n      A %s\n      B %s", perr != nil, early, err, clip(got), clip(want(A)), clip(want(B)))
				s0.Stop()
				return
			}
			s0.Stop()
			if perr == nil {
				// accepted after all: B is the acknowledged assignment now; continue from a store holding B
				A = B
			}
		}
		sc := sidecarsim.Start(opt)
		defer func() { sc.Stop() }()
		if sc.LoadErr != nil {
			e.Violate("start-fails", "fault=none,level=command", "the sidecar command does not start over the store of acknowledged A: %v", sc.LoadErr)
			return
		}
		if got, err := served(sc); err != nil || got != want(A) {
			e.Violate("clean-restart", "after=A,level=command", "sidecar command started after acknowledged A: err=%v\n serves %s\n   want %s", err, clip(got), clip(want(A)))
			return
		}
		if !fileMode {
			if err := sc.PushConfig(NodeConfig); err != nil {
				e.Undecided("command level: config push failed: %v", err)
				return
			}
		}
		if tp.Bool("b_refused_before_it_is_accepted", 1, 2) {
			// the first attempt to deliver B is refused (Prometheus does not reload), the coordinator's
			// retry of the very same update is accepted: B is acknowledged then, and stored
			sc.ReloadErr = fmt.Errorf("prometheus reload failed (injected)")
			_ = sc.PostTargets(&shard.UpdateTargetsRequest{Targets: B})
			sc.ReloadErr = nil
			e.Fault("prom_reload_fails")
		}
		if err := sc.PostTargets(&shard.UpdateTargetsRequest{Targets: B}); err != nil {
			e.Undecided("command level: fault-free update B failed: %v", err)
			return
		}
		sc = sc.Restart()
		if sc.LoadErr != nil {
			e.Violate("start-fails", "fault=none,level=command", "the sidecar command does not start over the store of acknowledged B: %v", sc.LoadErr)
			return
		}
		if got, err := served(sc); err != nil || got != want(B) {
			e.Violate("clean-restart", "after=B,level=command", "sidecar command restarted after acknowledged B: err=%v\n serves %s\n   want %s", err, clip(got), clip(want(B)))
			return
		}
		e.Probe("command_restart_checked")
	}
	if problem := sidecarsim.InBubble(e.T, cmdLevel); problem != "" {
		e.Undecided("C09 command level: %s", problem)
		return
	}
	if e.Failed() {
		return
	}
	e.Key("A="+kindNames[ka], "B="+kindNames[kb], fmt.Sprintf("old=%v", oldFormat))

	// after a fault the next start must succeed and resume A or B; a second start agrees
	verify := func(d string, fault string, point int, wantB string, loadFault bool) bool {
		got, err := startFresh(d)
		if err != nil {
			e.Violate("start-fails", "fault="+fault, "after %s at %d (A=%s, B=%s): the next start fails: %v", fault, point, kindNames[ka], kindNames[kb], err)
			return false
		}
		okB := !loadFault && sameAssignment(got, wantB)
		if got != wantA && !okB {
			cls := "other"
			if strings.HasPrefix(got, "[] ") || strings.HasPrefix(got, "null ") {
				cls = "empty-instead"
			}
			e.Violate("resumes-neither", "fault="+fault+",got="+cls, "after %s at %d the next start resumes neither A nor B:\n got %s\n   A %s\n   B %s", fault, point, clip(got), clip(wantA), clip(wantB))
			return false
		}
		got2, err := startFresh(d)
		if err != nil || got2 != got {
			e.Violate("second-start-differs", "fault="+fault, "after %s at %d the first start resumes %s but the second start: err=%v %s", fault, point, clip(got), err, clip(got2))
			return false
		}
		return true
	}

	// expected B state (idle time is taken from the faulted manager itself when it reports it)
	sizeB := 0
	{
		d := filepath.Join(base, "sizeB")
		copyDir(tmpl, d)
		tm := newTM(d)
		_ = tm.Load()
		_ = tm.UpdateTargets(&shard.UpdateTargetsRequest{Targets: B})
		sizeB = storeSize(d)
	}

	// (ii) write cut at byte N — in-process RLIMIT_FSIZE sweep
	var points []int
	max := sizeB + 1
	if sizeA+1 > max {
		max = sizeA + 1
	}
	if max <= 1500 {
		for n := 0; n <= max; n++ {
			points = append(points, n)
		}
		e.ExhaustiveSweep()
		sample["cut_sweep"] = fmt.Sprintf("every byte offset 0..%d", max)
	} else {
		points = []int{0, 1, max / 2, max - 1, max}
		for k := 0; k < 12; k++ {
			points = append(points, tp.Choose("cut_point", max))
		}
		sample["cut_sweep"] = fmt.Sprintf("%d drawn offsets of %d", len(points), max)
	}
	d := filepath.Join(base, "cut")
	for _, n := range points {
		if e.Failed() {
			return
		}
		copyDir(tmpl, d)
		tm := newTM(d)
		if err := tm.Load(); err != nil {
			e.Undecided("Load before the faulted update failed: %v", err)
			return
		}
		var uerr error
		withFsizeLimit(n, func() { uerr = tm.UpdateTargets(&shard.UpdateTargetsRequest{Targets: B}) })
		e.Fault("store_write_cut")
		if uerr != nil {
			e.Probe("update_returned_error")
		}
		if !verify(d, "store_write_cut", n, canon(tm.TargetsInfo()), false) {
			return
		}
	}
	// an update that is refused (an update callback - config injection, Prometheus reload -
	// fails) was not acknowledged: a restart resumes exactly the acknowledged A
	if !e.Failed() {
		copyDir(tmpl, d)
		tm := newTM(d)
		if err := tm.Load(); err != nil {
			e.Undecided("Load before the refused update failed: %v", err)
			return
		}
		tm.AddUpdateCallbacks(func(map[string][]*target.Target) error { return fmt.Errorf("prometheus reload failed (injected)") })
		if err := tm.UpdateTargets(&shard.UpdateTargetsRequest{Targets: B}); err == nil {
			e.Violate("refused-update-acknowledged", "", "an update whose callback failed was acknowledged")
			return
		}
		e.Fault("update_callback_fails")
		got, err := startFresh(d)
		if err != nil {
			e.Violate("start-fails", "fault=update_callback_fails", "after a refused update the next start fails: %v", err)
			return
		}
		if got != wantA {
			e.Violate("resumes-unacknowledged", "fault=update_callback_fails", "update B was refused (its reload callback failed) but the next start does not resume the acknowledged A:\n got %s\n   A %s", clip(got), clip(wantA))
			return
		}
	}
	// (iv) the write Load itself performs at start, cut at byte N
	lp := []int{0, 1, sizeA / 2, sizeA - 1}
	for _, n := range lp {
		if n < 0 || e.Failed() {
			continue
		}
		copyDir(tmpl, d)
		tm := newTM(d)
		withFsizeLimit(n, func() { _ = tm.Load() })
		e.Fault("load_write_cut")
		if !verify(d, "load_write_cut", n, "", true) {
			return
		}
	}

	// child processes: the same update in a separate OS process, (a) with a cut,
	// (b) killed on entry to the K-th syscall that touches the store file
	if e.Failed() {
		return
	}
	childDir := filepath.Join(base, "child")
	const traceSet = "openat,open,creat,write,pwrite64,rename,renameat,renameat2,unlink,unlinkat,fsync,fdatasync,close,ftruncate"
	// straceArgs: nil = plain child; {"-o", file} = fault-free trace; {name, when} = kill on the when-th call of name
	runChild := func(limit int, strace []string) (string, bool) {
		copyDir(tmpl, childDir)
		sp := childSpec{Dir: childDir, B: B, Limit: limit}
		b, _ := json.Marshal(sp)
		in := filepath.Join(base, "child.json")
		_ = os.WriteFile(in, b, 0o644)
		var cmd *exec.Cmd
		if strace != nil {
			args := []string{"-f", "-e", "trace=" + traceSet, "-e", "signal=none"}
			if strace[0] == "-o" {
				args = append(args, "-o", strace[1])
			} else {
				args = append(args, "-o", "/dev/null", "-e", fmt.Sprintf("inject=%s:signal=KILL:when=%s", strace[0], strace[1]))
			}
			args = append(args,
				"-P", filepath.Join(childDir, "kvass-shard.json"),
				"-P", filepath.Join(childDir, "kvass-shard.json.tmp"),
				"-P", filepath.Join(childDir, "targets.json"),
				core.Self(), "c09child", "-in", in)
			cmd = exec.Command("strace", args...)
		} else {
			cmd = exec.Command(core.Self(), "c09child", "-in", in)
		}
		cmd.Env = append(os.Environ(), "GOMAXPROCS=1")
		out, _ := cmd.CombinedOutput()
		return string(out), strings.Contains(string(out), "B-BEGIN")
	}
	stateOf := func(out string) string {
		for _, ln := range strings.Split(out, "\n") {
			if strings.HasPrefix(ln, "STATE ") {
				return strings.TrimPrefix(ln, "STATE ")
			}
		}
		return ""
	}
	// (a)
	n := points[tp.Choose("child_cut_point", len(points))]
	out, began := runChild(n, nil)
	if !began {
		e.Undecided("child process did not reach the faulted update: %s", clip(out))
		return
	}
	e.Fault("store_write_cut_child_process")
	if !verify(childDir, "store_write_cut", n, stateOf(out), false) {
		return
	}
	// (b)
	if haveStrace() {
		// fault-free trace of the store-touching syscalls of (start + update B);
		// strace counts "when" per syscall name, so the k-th call overall is
		// addressed as the j-th call of its name
		tf := filepath.Join(base, "trace.txt")
		if out, _ := runChild(-1, []string{"-o", tf}); !strings.Contains(out, "STATE ") {
			e.Undecided("fault-free traced child did not complete: %s", clip(out))
			return
		}
		tb, _ := os.ReadFile(tf)
		var seq [][2]string
		occ := map[string]int{}
		for _, ln := range strings.Split(string(tb), "\n") {
			f := strings.Fields(ln)
			if len(f) < 2 {
				continue
			}
			call := f[1]
			if _, err := fmt.Sscanf(f[0], "%d", new(int)); err != nil {
				call = f[0]
			}
			p := strings.IndexByte(call, '(')
			if p <= 0 || !strings.Contains(","+traceSet+",", ","+call[:p]+",") {
				continue
			}
			occ[call[:p]]++
			seq = append(seq, [2]string{call[:p], fmt.Sprint(occ[call[:p]])})
		}
		sample["store_syscalls_traced"] = len(seq)
		if len(seq) == 0 {
			e.Undecided("strace saw no store-touching syscall")
			return
		}
		tw := filepath.Join(base, "twin")
		copyDir(tmpl, tw)
		tmT := newTM(tw)
		_ = tmT.Load()
		_ = tmT.UpdateTargets(&shard.UpdateTargetsRequest{Targets: B})
		twinB := canon(tmT.TargetsInfo())
		missed := 0
		for k, sc := range seq {
			if e.Failed() {
				return
			}
			out, _ := runChild(-1, []string{sc[0], sc[1]})
			if strings.Contains(out, "STATE ") {
				missed++
				e.Probe("kill_point_missed")
				continue
			}
			e.Fault("store_kill_at_syscall")
			loadFault := !strings.Contains(out, "B-BEGIN")
			if !verify(childDir, "store_kill_at_syscall", k+1, twinB, loadFault) {
				return
			}
		}
		if missed == 0 {
			e.ExhaustiveSweep()
		}
	} else {
		e.Probe("strace_unavailable_kill_points_skipped")
	}
}

// sameAssignment compares canonical states ignoring the idle instant (the faulted
// process and its twin stamp "now" at slightly different real times).
func sameAssignment(a, b string) bool {
	strip := func(s string) string {
		i := strings.Index(s, " idle@")
		if i < 0 {
			return s
		}
		j := strings.Index(s[i+1:], " ")
		if j < 0 {
			return s[:i] + " idle"
		}
		return s[:i] + " idle" + s[i+1+j:]
	}
	return strip(a) == strip(b)
}

func clip(s string) string {
	if len(s) > 400 {
		return s[:400] + "…"
	}
	return s
}
