package node

import (
	"bytes"
	"fmt"
	"net/http"
	"strings"
	"testing/synctest"
	"time"

	"kvassverif/core"
	"kvassverif/sidecarsim"

	"tkestack.io/kvass/pkg/prom"
	"tkestack.io/kvass/pkg/shard"
	"tkestack.io/kvass/pkg/target"
)

// shortWriter is the Prometheus side of the proxy: an http.ResponseWriter whose
// Write accepts only a drawn number of bytes per call (at least 1).
type shortWriter struct {
	hdr             http.Header
	code            int
	body            bytes.Buffer
	sizes           []int
	i               int
	hdrAtFirstWrite http.Header
	writes          int
	shorts          int
}

func (w *shortWriter) Header() http.Header { return w.hdr }
func (w *shortWriter) WriteHeader(c int) {
	if w.code == 0 {
		w.code = c
		w.hdrAtFirstWrite = w.hdr.Clone()
	}
}
func (w *shortWriter) Write(p []byte) (int, error) {
	if w.code == 0 {
		w.WriteHeader(200)
	}
	n := len(p)
	if len(w.sizes) > 0 && n > 0 {
		s := w.sizes[w.i%len(w.sizes)]
		w.i++
		if s < 1 {
			s = 1
		}
		if s < n {
			n = s
			w.shorts++
		}
	}
	w.writes++
	w.body.Write(p[:n])
	return n, nil
}

func payloadClass(tp *core.Tape) (string, []byte) {
	switch tp.Weighted("payload_class", 4, 1, 1, 2, 2, 1, 1, 1) {
	case 0:
		return "samples", Render(GenSamples(tp, 1+tp.Choose("n", 30)), tp.Bool("extras", 1, 2), false, false)
	case 1:
		return "empty", []byte{}
	case 2:
		return "one-line-no-newline", Render(GenSamples(tp, 1), false, false, true)
	case 3:
		return "comments-and-blanks", []byte("# HELP a b\n\n\n# TYPE a counter\n#\n   \na 1\n\n# trailing comment")
	case 4:
		// lines the statistics parser rejects
		return "rejected-lines", []byte("this is not a metric line at all{{{\nok_metric 1\n{nometricname=\"x\"} 2\nbad value\nx{a=\"b} 3\nok_two{a=\"b\"} 4\n")
	case 5:
		n := 1 + tp.Choose("crlf_n", 10)
		return "crlf", Render(GenSamples(tp, n), true, true, false)
	case 6:
		// one long line, below the parser's 256 KiB line limit
		ln := core.Pick(tp, "long_len", 70000, 1000, 200000, 262000)
		return "long-line", []byte("long_metric{l=\"" + strings.Repeat("v", ln) + "\"} 1\nshort 2\n")
	default:
		mib := core.Pick(tp, "mib", 1, 3, 6)
		var b bytes.Buffer
		line := Render(GenSamples(tp, 50), true, false, false)
		for b.Len() < mib<<20 {
			b.Write(line)
		}
		return "many-mib", b.Bytes()
	}
}

func c12Run(tp *core.Tape, e *core.Env) {
	var ops []string
	problem := sidecarsim.InBubble(e.T, func() { ops = c12Bubble(tp, e) })
	if problem != "" {
		e.Undecided("C12 node run: %s", problem)
	}
	e.SetSample(map[string]interface{}{"scrapes": ops})
}

func c12Bubble(tp *core.Tape, e *core.Env) (ops []string) {
	start := time.Now()
	n, err := StartNode(e, "c12", tp.Bool("file_mode", 1, 3), NodeConfig)
	if err != nil {
		e.Undecided("cannot start sidecar: %v", err)
		return
	}
	defer n.Cleanup()
	req := map[string][]*target.Target{"j0": {MkTarget(101, "j0", "", 5, 5)}, "j1": {MkTarget(102, "j1", "in_transfer", 5, 5)}}
	if err := n.SC.PostTargets(&shard.UpdateTargetsRequest{Targets: req}); err != nil {
		e.Undecided("POST targets: %v", err)
		return
	}
	var pc *promClient
	nScr := tp.Range("n_scrapes", 1, 6)
	for i := 0; i < nScr && !e.Failed(); i++ {
		h := core.Pick(tp, "target", uint64(101), 102, 104)
		job := map[uint64]string{101: "j0", 102: "j1"}[h]
		asg := "assigned"
		if job == "" {
			job = Jobs[tp.Choose("job", len(Jobs))]
			asg = "unassigned"
		}
		class, payload := payloadClass(tp)
		gz := tp.Bool("gzip", 1, 3)
		ct := core.Pick(tp, "content_type", "text/plain; version=0.0.4", "application/openmetrics-text; version=0.0.1; charset=utf-8", "text/plain")
		var chunks []int
		switch tp.Weighted("chunking", 2, 2, 1, 1) {
		case 1:
			chunks = []int{1 + tp.Choose("chunk_a", 100), 1 + tp.Choose("chunk_b", 5000)}
		case 2:
			chunks = []int{1}
		case 3:
			chunks = []int{1 << 20}
		}
		spec := &sidecarsim.TargetSpec{Payload: payload, ContentType: ct, Gzip: gz, Chunks: chunks}
		if gz && len(payload) >= 4 && tp.Bool("gzip_members", 1, 3) {
			// a compressed body made of several gzip members (a server that finishes its compressor at
			// every flush): it decompresses to the concatenation, which is the target's body
			spec.GzipMembers = 2 + tp.Choose("gzip_member_count", 3)
			e.Probe("gzip_several_members")
		}
		// a target whose connection breaks off once in the middle of the body and that answers properly
		// afterwards: whether Prometheus then sees a failure is C13's business; if it is handed a
		// complete 200 response, that response must still be exactly the target's body
		flaky := len(payload) > 1 && tp.Bool("target_breaks_once", 1, 5)
		if flaky {
			wire := len(payload)
			if gz {
				wire = len(sidecarsim.GzipMembers(payload, spec.GzipMembers))
			}
			spec.Fail, spec.FailFirst, spec.FailOffset = "break", 1, 1+tp.Choose("break_once_offset", wire-1)
			e.Fault("target_break_once")
		}
		n.Targets.Set(TargetHost(h), spec)
		var gotBody []byte
		var gotCode int
		var gotCT, gotCE string
		via := "writer"
		if tp.Bool("real_http_server", 1, 4) {
			via = "net/http"
			if pc == nil {
				pc = newPromClient(n.SC.Proxy)
				defer pc.Close()
			}
			v := pc.Get(ScrapeURLFor(h, job))
			if flaky && (v.Err != "" || v.BodyErr != "" || v.Status != 200) {
				e.Probe("flaky_scrape_failed_for_prometheus")
				continue
			}
			if v.Err != "" || v.BodyErr != "" {
				e.Violate("delivery", "via=net/http,class="+class, "successful scrape (%s, %d bytes, gzip=%v) but the client saw err=%q bodyErr=%q", class, len(payload), gz, v.Err, v.BodyErr)
				continue
			}
			gotBody, gotCode, gotCT, gotCE = v.Body, v.Status, v.CT, v.CE
		} else {
			w := &shortWriter{hdr: http.Header{}}
			switch tp.Weighted("short_writes", 2, 2, 1) {
			case 1:
				w.sizes = []int{1 + tp.Choose("sw_a", 50), 1 + tp.Choose("sw_b", 4096)}
			case 2:
				w.sizes = []int{1}
			}
			aborted := n.SC.Scrape(w, ScrapeURLFor(h, job))
			if flaky && (aborted || (w.code != 0 && w.code != 200)) {
				e.Probe("flaky_scrape_failed_for_prometheus")
				continue
			}
			if aborted {
				e.Violate("delivery", "via=writer,class="+class, "successful scrape (%s, %d bytes) but the proxy aborted the response", class, len(payload))
				continue
			}
			gotBody, gotCode = w.body.Bytes(), w.code
			if gotCode == 0 {
				gotCode = 200
			}
			hd := w.hdrAtFirstWrite
			if hd == nil {
				hd = w.hdr
			}
			gotCT, gotCE = hd.Get("Content-Type"), hd.Get("Content-Encoding")
			if w.shorts > 0 {
				e.Probe("short_writes_happened")
			}
		}
		ops = append(ops, fmt.Sprintf("target=%d(%s) job=%s class=%s bytes=%d gzip=%v chunks=%v via=%s -> %d, %d bytes", h, asg, job, class, len(payload), gz, chunks, via, gotCode, len(gotBody)))
		e.Logf("scrape %s", ops[len(ops)-1])
		e.Key(class, asg, fmt.Sprintf("gzip=%v", gz), via)
		e.Probe("class_" + class)
		if gotCode != 200 {
			e.Violate("status", "class="+class+",gzip="+fmt.Sprint(gz), "successful scrape but Prometheus got status %d", gotCode)
			continue
		}
		if !bytes.Equal(gotBody, payload) {
			off := 0
			for off < len(gotBody) && off < len(payload) && gotBody[off] == payload[off] {
				off++
			}
			oc := "middle"
			switch {
			case off == 0:
				oc = "0"
			case off >= len(gotBody) || off >= len(payload):
				oc = "tail"
			}
			e.Violate("bytes-differ", fmt.Sprintf("first-diff=%s", oc),
				"body differs from what the target served: got %d bytes, served %d bytes, first difference at offset %d (%s, chunks %v, via %s)", len(gotBody), len(payload), off, asg, chunks, via)
		}
		if gotCT != ct {
			e.Violate("content-type", "", "content type %q, target sent %q", gotCT, ct)
		}
		if gotCE != "" {
			e.Violate("content-encoding", "", "decompressed body delivered with Content-Encoding %q", gotCE)
		}
	}
	// two gzip scrapes of different targets in flight at the same time (after at least one earlier gzip
	// scrape went through the same process): each must still get exactly its own target's body
	if !e.Failed() && tp.Bool("overlapping_gzip_scrapes", 1, 3) {
		mk := func(seed int) []byte { return Render(GenSamples(tp, 30+seed), false, false, false) }
		warm, pa, pb := mk(0), mk(7), mk(13)
		n.Targets.Set(TargetHost(101), &sidecarsim.TargetSpec{Payload: warm, Gzip: true})
		n.SC.Scrape(&shortWriter{hdr: http.Header{}}, ScrapeURLFor(101, "j0"))
		pause := make(chan struct{})
		wireA := len(sidecarsim.Gzip(pa))
		n.Targets.Set(TargetHost(101), &sidecarsim.TargetSpec{Payload: pa, Gzip: true, Pause: pause, PauseAt: 1 + tp.Choose("pause_at", wireA-1)})
		n.Targets.Set(TargetHost(102), &sidecarsim.TargetSpec{Payload: pb, Gzip: true})
		wa, wb := &shortWriter{hdr: http.Header{}}, &shortWriter{hdr: http.Header{}}
		var abortedA bool
		done := make(chan struct{})
		go func() {
			defer close(done)
			abortedA = n.SC.Scrape(wa, ScrapeURLFor(101, "j0"))
		}()
		synctest.Wait()
		abortedB := n.SC.Scrape(wb, ScrapeURLFor(102, "j1"))
		close(pause)
		<-done
		e.Probe("overlapping_gzip_scrapes")
		e.Key("overlapping-gzip", "assigned", "gzip=true", "writer")
		for _, x := range []struct {
			name    string
			aborted bool
			w       *shortWriter
			want    []byte
		}{{"the scrape that was paused mid-body", abortedA, wa, pa}, {"the scrape that overtook it", abortedB, wb, pb}} {
			if x.aborted || (x.w.code != 0 && x.w.code != 200) {
				e.Violate("delivery", "via=writer,class=overlapping-gzip", "two gzip scrapes in flight at once: %s was successful at the target (%d bytes) but the proxy failed it (status %d, aborted %v)", x.name, len(x.want), x.w.code, x.aborted)
			} else if !bytes.Equal(x.w.body.Bytes(), x.want) {
				e.Violate("bytes-differ", "first-diff=overlapping-gzip", "two gzip scrapes in flight at once: %s got %d bytes that are not its target's %d bytes", x.name, x.w.body.Len(), len(x.want))
			}
		}
	}
	// the administrative stop is lifted while a scrape is in flight: if Prometheus is handed a 200
	// for it, that response must carry the target's body
	if !e.Failed() && tp.Bool("stop_lifted_during_scrape", 1, 4) {
		pl := Render(GenSamples(tp, 25), false, false, false)
		if err := n.SC.PushExtra(&prom.ExtraConfig{StopScrapeReason: "stopped by admin"}); err != nil {
			e.Undecided("push extra: %v", err)
			return ops
		}
		n.Targets.Set(TargetHost(101), &sidecarsim.TargetSpec{Payload: pl, Gzip: tp.Bool("gzip", 1, 3)})
		hold := n.Targets.HoldNext(TargetHost(101))
		w := &shortWriter{hdr: http.Header{}}
		var aborted bool
		done := make(chan struct{})
		go func() { defer close(done); aborted = n.SC.Scrape(w, ScrapeURLFor(101, "j0")) }()
		synctest.Wait()
		err := n.SC.PushExtra(&prom.ExtraConfig{})
		close(hold)
		<-done
		if err != nil {
			e.Undecided("push extra: %v", err)
			return ops
		}
		e.Probe("stop_lifted_during_scrape")
		e.Key("stop-lifted-in-flight", "assigned", "gzip=any", "writer")
		if !aborted && (w.code == 0 || w.code == 200) && !bytes.Equal(w.body.Bytes(), pl) {
			e.Violate("bytes-differ", "first-diff=stop-lifted-in-flight", "the stop reason was lifted while the scrape was in flight: Prometheus got status 200 with %d body bytes, the target served %d", w.body.Len(), len(pl))
		}
	}
	e.AddSim(time.Since(start))
	return ops
}
