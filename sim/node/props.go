package node

import (
	"time"

	"kvassverif/core"
)

var realNode = []string{"the command body of cmd/kvass/sidecar.go itself (compiled as a package by the build overlay): its wiring, callback order and start path", "prom.Client (reload / head series over HTTP)", "sidecar.TargetsManager (incl. store file on a real scratch directory)", "sidecar.Service (gin routes)", "sidecar.Proxy", "sidecar.Injector", "prom.ConfigManager", "scrape.Manager / Scraper / VictoriaMetrics stream parser / StatisticSeries", "target.ScrapeStatus"}
var stubNode = []string{"Prometheus (an HTTP stub behind http.DefaultTransport answering /-/reload and /api/v1/status/tsdb)", "the two listening sockets (the handlers are taken at http.ListenAndServe)", "scrape targets (in-memory http.RoundTripper with generated payloads and injected failures)", "coordinator (the harness issues the API calls)"}

func init() {
	core.Register(&core.Spec{
		ID: "C16", Engine: "node", Run: c16Run,
		QuickRuns: 4000, ThorRuns: 300000, QuickCap: 60 * time.Second, ThorCap: 12 * time.Minute,
		Rule:   "a run generates a configuration tree from the catalogue, renders it, and checks: same text -> same hash in two manager instances, in a child OS process, when read from a file in a drawn directory (and when received as text by a manager that read a file earlier) and as reported by a real sidecar's runtimeinfo after a push; 1-3 cosmetic variants (indentation, comments, key order, quoting, flow style, document start, trailing blanks, external-label changes) -> same hash; 1-4 single-setting semantic edits (every scalar kind incl. regexes and secrets, SD options, list reorder) -> different hash; a case is (cosmetic kind) or (edit kind x field path)",
		Real:   []string{"prom.ConfigManager.ReloadFromRaw (config.Load + hashstructure)", "sidecar.Service runtimeinfo", "a separate OS process"},
		Stub:   []string{"none for hashing"},
		Assume: []string{"edits are drawn from per-field value domains that exclude textually different but semantically equal values (e.g. 1m vs 60s)", "whether the coordinator then treats shards as in sync over cycles is exercised by the world engine"},
	})
	core.Register(&core.Spec{
		ID: "C11", Engine: "node", Run: c11Run,
		QuickRuns: 10000, ThorRuns: 200000, QuickCap: 60 * time.Second, ThorCap: 12 * time.Minute,
		Rule: "a run starts a real sidecar (push or file mode, self-monitoring on/off) and applies 2-6 operations in any order - a new configuration composed from a catalogue (global, rule_files, alerting with auth, 1-4 jobs with every auth kind / limits / params / honor flags / relabel and metric-relabel programs / static, file, dns, kubernetes, http, consul SD, remote write/read with basic-auth, bearer token, authorization, oauth2, sigv4; every secret a unique token; drawn YAML style) or a new assignment (jobs without targets, targets of a non-existent job, both states, odd label names, params) - and after each one loads the generated file with config.Load and compares it field-wise with the latest configuration x latest assignment; a case is (jobs, remote-write entries, alerting?, jobs with targets, self-monitor, kind of last operation)",
		Real: realNode, Stub: stubNode,
		SchedLabels: []string{"op", "scrape_outcome", "fail_kind", "fail_offset", "update_mode", "prom_reload_fails", "overlap_flip", "kind", "break_offset", "timeout_offset", "chunking", "short_writes", "chunk", "cut_point", "child_cut_point", "config_change", "op_is_config"},
		Assume:      []string{"comparison is on structs loaded by the vendored Prometheus library (config.Load) for both the original and the generated text"},
	})
	core.Register(&core.Spec{
		ID: "C09", Engine: "node", Run: c09Run,
		QuickRuns: 120, ThorRuns: 20000, QuickCap: 70 * time.Second, ThorCap: 12 * time.Minute,
		Rule:    "a run draws two consecutive assignments A -> B (empty / one / many / large >64 KiB store; both states; label values needing JSON escaping; optionally an old-format targets.json as starting point), checks clean restarts, then injects store faults into the real TargetsManager's persisting of B: the store write cut at byte N by RLIMIT_FSIZE for every N of small stores (complete sub-sweep) or drawn N of large ones, the same cut applied to the write Load performs at start, the same update in a separate OS process with a cut, and that process SIGKILLed by strace on entry to the K-th syscall touching the store file for every K; after each fault a fresh start must succeed and resume A or B, and a second start must agree; a case is (kind of A) x (kind of B) x old-format?",
		Real:    []string{"sidecar.TargetsManager (Load, UpdateTargets, store file on a real directory)", "cmd/kvass/sidecar.go command body (clean restarts)", "kernel file system", "a separate OS process for the child variant"},
		Stub:    []string{"fault sweeps work on the TargetsManager alone (no update callbacks: the injector's own file is not part of this property); the clean-restart clause is repeated on the whole `kvass sidecar` command body (real start path, API answers)"},
		Assume:  []string{"no power-loss model: kill, partial write and full disk are injected at the syscall boundary; un-synced page loss is not", "the idle-since instant of B is compared up to the real-time difference between the faulted process and its fault-free twin"},
		Workers: 16, SelfCheckRuns: 6,
	})
	core.Register(&core.Spec{
		ID: "C12", Engine: "node", Run: c12Run,
		QuickRuns: 3000, ThorRuns: 150000, QuickCap: 60 * time.Second, ThorCap: 12 * time.Minute,
		Rule: "a run performs 1-6 successful scrapes through the real proxy with a drawn payload class (generated samples, empty, one line without newline, comment/blank/HELP/TYPE lines, lines the statistics parser rejects, CRLF, one line of up to 262000 bytes, 1-6 MiB), identity or gzip (one member, or 2-4 concatenated gzip members), drawn read-chunk pattern on the target side (1 byte ... 1 MiB) and drawn short-write pattern on the Prometheus side (a ResponseWriter accepting 1..n bytes per call), or through a real net/http server+client over net.Pipe; assigned and unassigned hashes; a case is (payload class) x (assigned?) x gzip x (writer | net/http)",
		Real: append([]string{"net/http server and client over net.Pipe (a quarter of the scrapes)"}, realNode...), Stub: stubNode,
		SchedLabels: []string{"op", "scrape_outcome", "fail_kind", "fail_offset", "update_mode", "prom_reload_fails", "overlap_flip", "kind", "break_offset", "timeout_offset", "chunking", "short_writes", "chunk", "cut_point", "child_cut_point", "config_change", "op_is_config"},
		Assume:      []string{"lines stay below the VictoriaMetrics stream parser's 256 KiB line limit, as the statement requires"},
	})
	core.Register(&core.Spec{
		ID: "C13", Engine: "node", Run: c13Run,
		QuickRuns: 8000, ThorRuns: 150000, QuickCap: 60 * time.Second, ThorCap: 12 * time.Minute,
		Rule: "a run drives 2-10 scrapes (plus complete sweeps over every break offset of a small payload) through a real net/http server serving the real Proxy over net.Pipe connections to a real http.Client configured with the proxy URL, all inside one synctest bubble; per scrape a drawn target (assigned normal / assigned in_transfer / unassigned), payload, gzip, chunking and failure stage (connect, non-200 status, timeout on the fake clock, body break at a drawn offset - the connection closed early (unexpected EOF) or reset (ECONNRESET, 'connection reset by peer') -, corrupted gzip stream, administratively stopped); a case is (failure stage class) x (assigned?) x gzip",
		Real: append([]string{"net/http server and client over net.Pipe"}, realNode...), Stub: stubNode,
		SchedLabels: []string{"op", "scrape_outcome", "fail_kind", "fail_offset", "update_mode", "prom_reload_fails", "overlap_flip", "kind", "break_offset", "timeout_offset", "chunking", "short_writes", "chunk", "cut_point", "child_cut_point", "config_change", "op_is_config"},
		Assume:      []string{"the Prometheus-side client waits longer (15 s) than the job's scrape_timeout (10 s), so a time-out is the proxy's verdict, not the client's"},
	})
	core.Register(&core.Spec{
		ID: "C14", Engine: "node",
		Run:       modelRun(nodeCfg{updW: 3, scrapeW: 12, restartW: 1, advW: 2, overlapW: 2, minOps: 4, maxOps: 40, failW: 3, bigPayload: true}),
		QuickRuns: 6000, ThorRuns: 300000, QuickCap: 60 * time.Second, ThorCap: 12 * time.Minute,
		Rule: "a run is a drawn sequence of 4-40 operations on one real sidecar, mostly scrapes through the real proxy of payloads built from a drawn list of (metric name, label set) samples (so total and kept counts under the job's metric relabel rules are known by construction; kept = Prometheus' own relabel.Process per sample; the three jobs have no rules / a drop on the metric name / a replace rule feeding a drop rule on the rewritten label, then a labeldrop), with failures, several targets and jobs, updates and restarts; after every operation /status/, /runtimeinfo/ and /samples/?with_metrics_detail are compared with the model (series = floor(mean of last <=3 successful kept counts), total = last success, process = sum of totals, head = max(prometheus head, sum of series)); a case is (operation kinds mixed) x (final entry classes) x idle?",
		Real: realNode, Stub: stubNode,
		SchedLabels: []string{"op", "scrape_outcome", "fail_kind", "fail_offset", "update_mode", "prom_reload_fails", "overlap_flip", "kind", "break_offset", "timeout_offset", "chunking", "short_writes", "chunk", "cut_point", "child_cut_point", "config_change", "op_is_config"},
		Assume:      []string{"after a failed scrape the per-scrape statistics of that target are unspecified and not compared"},
	})
	core.Register(&core.Spec{
		ID: "C10", Engine: "node",
		Run:       modelRun(nodeCfg{updW: 8, scrapeW: 6, restartW: 2, advW: 2, overlapW: 2, minOps: 3, maxOps: 30, failW: 4}),
		QuickRuns: 6000, ThorRuns: 300000, QuickCap: 60 * time.Second, ThorCap: 12 * time.Minute,
		Rule: "a run is a drawn sequence of 3-30 operations on one real sidecar (target updates over 6 hashes x 3 jobs with adds/removals/state flips/repeats/empty/job moves/a job named with an empty list, scrapes with drawn outcome through the real proxy, restarts from the store directory, fake-clock advances) with the real GET status / runtimeinfo answers compared with a reference model after every operation; a case is (set of operation kinds mixed) x (multiset of final entry classes state/health/scrape-class) x idle?; trivial = fewer than two kinds of operation",
		Real: realNode, Stub: stubNode,
		SchedLabels: []string{"op", "scrape_outcome", "fail_kind", "fail_offset", "update_mode", "prom_reload_fails", "overlap_flip", "kind", "break_offset", "timeout_offset", "chunking", "short_writes", "chunk", "cut_point", "child_cut_point", "config_change", "op_is_config"},
		Assume:      []string{"a request never names one hash twice with different states (order of two states for one hash in one request is left open by the statement)"},
	})
}
