#!/bin/bash
# runs /repo's test suite (guard off) and compares with /root/.vp/BASELINE.json stable_pass
export GOFLAGS=-mod=mod GOPROXY=off GOSUMDB=off
R=${BASE_REPO:-/repo}
trap 'rm -f /tmp/kv-baseline.$$.json /tmp/kv-baseline.$$.err /tmp/kv-go.mod.bak.$$ /tmp/kv-go.sum.bak.$$' EXIT
cp $R/go.mod /tmp/kv-go.mod.bak.$$; cp $R/go.sum /tmp/kv-go.sum.bak.$$
(cd $R && go test -mod=mod -json -vet=off -count=1 -timeout 25m ./... > /tmp/kv-baseline.$$.json 2>/tmp/kv-baseline.$$.err)
cp /tmp/kv-go.mod.bak.$$ $R/go.mod; cp /tmp/kv-go.sum.bak.$$ $R/go.sum; rm -f /tmp/kv-go.mod.bak.$$ /tmp/kv-go.sum.bak.$$
export KVB=/tmp/kv-baseline.$$.json
python3 - <<'PY'
import json
base=set(json.load(open('/root/.vp/BASELINE.json'))['stable_pass'])
passed=set()
import os
for l in open(os.environ['KVB']):
    try: e=json.loads(l)
    except: continue
    if e.get('Action')=='pass' and e.get('Test'):
        passed.add(e['Package']+'::'+e['Test'])
missing=sorted(base-passed)
print("baseline stable tests: %d, passing now: %d, missing: %d"%(len(base),len(base&passed),len(missing)))
for m in missing: print("  MISSING",m)
raise SystemExit(1 if missing else 0)
PY
